"""
Shared runner: task fan-out over a fork pool, merging, known-findings matching,
replay files, evidence files, exit status (DESIGN.md sections 2, 5, 6).

usage:  python -m mc.runner <ID> [--tier quick|thorough] [--replay PATH] [--workers N]
        python -m mc.runner --selftest
"""
import os, sys, json, time, importlib, hashlib, traceback
import multiprocessing as mp
from collections import Counter

VERIF = os.path.dirname(os.path.dirname(os.path.abspath(__file__)))
MAX_KEEP_PER_TASK = 40     # violation records shipped back per task (all are counted)
MAX_REPLAYS = 12


# --------------------------------------------------------------------------- known findings

def load_known():
    p = os.path.join(VERIF, "known_findings.json")
    if not os.path.exists(p):
        return {"known": [], "fixed": []}
    with open(p) as f:
        return json.load(f)


_KNOWN = None


def known_entries(prop):
    global _KNOWN
    if _KNOWN is None:
        _KNOWN = load_known()
        for e in _KNOWN["known"]:
            if "keys" in e:
                e["_keyset"] = set(e["keys"])
    return [(i, e) for i, e in enumerate(_KNOWN["known"]) if e["property"] == prop]


def _site_matches(site, v):
    case = v.get("case") or {}
    if "algo" in site and site["algo"] != v["algo"]:
        return False
    if "kinds" in site and v["kind"] not in site["kinds"]:
        return False
    if "k_min" in site and not (isinstance(case.get("k"), int) and case["k"] >= site["k_min"]):
        return False
    if "k_eq" in site and case.get("k") != site["k_eq"]:
        return False
    if "items_sorted_in" in site and sorted(case.get("items") or []) not in [sorted(x) for x in site["items_sorted_in"]]:
        return False
    if "fmt_in" in site and case.get("fmt", "list") not in site["fmt_in"]:
        return False
    if "config_contains" in site and site["config_contains"] not in v["config"]:
        return False
    return True


def match_known(prop, v):
    """-> index of the known-findings entry that lists this violation, or None."""
    for i, e in known_entries(prop):
        if "key" in e:
            if e["key"] == v["key"]:
                return i
        elif "keys" in e:
            if v["key"] in e["_keyset"]:
                return i
        elif "site" in e:
            if _site_matches(e["site"], v):
                return i
    return None


# --------------------------------------------------------------------------- accumulator used by the workers

class Acc:
    def __init__(self, prop, scope):
        self.prop = prop
        self.scope = scope
        self.states = 0
        self.transitions = 0
        self.validated = 0
        self.nontrivial = 0
        self.outcomes = set()
        self.new = []            # kept violation records not listed as known
        self.new_count = 0
        self.new_groups = Counter()
        self.known_hits = Counter()
        self.samples = []
        self.algos = Counter()
        self.notes = Counter()

    def point(self, nontrivial=False, n=1):
        self.states += n
        if nontrivial:
            self.nontrivial += n

    def ran(self, algo, n=1):
        self.transitions += n
        self.algos[algo] += n

    def check(self, n=1):
        self.validated += n

    def outcome(self, obs):
        if len(self.outcomes) < 4000:
            self.outcomes.add(hashlib.md5(repr(obs).encode()).hexdigest()[:12])

    def note(self, key, n=1):
        self.notes[key] += n

    def sample(self, x):
        if len(self.samples) < 2:
            self.samples.append(x)

    def violation(self, algo, config, inp, kind, expected=None, observed=None, case=None):
        v = {"property": self.prop, "algo": algo, "config": config, "input": _short(inp), "kind": kind,
             "expected": _short(expected), "observed": _short(observed), "case": case, "scope": self.scope}
        v["key"] = f"{algo}|{config}|{v['input']}|{kind}"
        idx = match_known(self.prop, v)
        if idx is not None:
            self.known_hits[idx] += 1
            return
        self.new_count += 1
        g = (algo, kind)
        self.new_groups[g] += 1
        # keep the first few of every (algo, kind) group - enumeration is simplest-first
        if self.new_groups[g] <= 3 and len(self.new) < MAX_KEEP_PER_TASK:
            self.new.append(v)

    def result(self):
        return {"scope": self.scope, "states": self.states, "transitions": self.transitions,
                "validated": self.validated, "nontrivial": self.nontrivial, "outcomes": self.outcomes,
                "new": self.new, "new_count": self.new_count, "new_groups": dict(self.new_groups),
                "known_hits": dict(self.known_hits),
                "samples": self.samples, "algos": dict(self.algos), "notes": dict(self.notes)}


def _short(x, limit=300):
    if x is None:
        return None
    s = x if isinstance(x, str) else json.dumps(x, default=repr, sort_keys=True)
    return s if len(s) <= limit else s[:limit] + "..."


# --------------------------------------------------------------------------- pool plumbing

_PROP = None


def _init_worker(modname):
    global _PROP
    _PROP = importlib.import_module(modname)


def _call_named(arg):
    """used by explorers that drive the pool themselves (E2/E4): arg = (function name, argument)"""
    import signal
    fname, a = arg
    t0 = time.time()
    try:
        signal.signal(signal.SIGALRM, _alarm); signal.alarm(_limit())
    except Exception:
        pass
    try:
        return getattr(_PROP, fname)(a)
    except _TaskTimeout:
        return _timed_out(arg, t0)
    except BaseException as e:
        return {"harness_error": f"{type(e).__name__}: {e}\n{traceback.format_exc()}", "task": repr(arg)[:300]}
    finally:
        try:
            signal.alarm(0)
        except Exception:
            pass


class _Incomplete(Exception):
    """raised inside an explorer that drives the pool itself when one of its tasks was dropped for exceeding its budget"""


class _TaskTimeout(BaseException):
    pass


def _alarm(signum, frame):
    raise _TaskTimeout()


def _limit():
    return int(os.environ.get("VERIF_TASK_LIMIT", "0") or 0) or (900 if os.environ.get("VERIF_TIER_RUNNING") != "thorough" else 7200)


def _timed_out(task, t0):
    """a task that exceeds its wall-clock budget (code under test that has become pathologically slow, or hangs) is dropped:
    the run goes on, reports what the other tasks found and says that it is incomplete - never a silent pass"""
    return {"scope": "timed-out", "states": 0, "transitions": 0, "validated": 0, "nontrivial": 0, "outcomes": set(), "new": [],
            "new_count": 0, "new_groups": {}, "known_hits": {}, "samples": [], "algos": {}, "notes": {},
            "task_s": time.time() - t0, "timed_out": repr(task)[:200]}


def _work(task):
    import signal
    t0 = time.time()
    try:
        signal.signal(signal.SIGALRM, _alarm); signal.alarm(_limit())
    except Exception:
        pass
    try:
        r = _work_inner(task, t0)
        return r
    except _TaskTimeout:
        return _timed_out(task, t0)
    finally:
        try:
            signal.alarm(0)
        except Exception:
            pass


def _work_inner(task, t0):
    try:
        r = _PROP.run_task(task)
        if isinstance(r, Acc):
            r = r.result()
        r["task_s"] = time.time() - t0
        return r
    except _TaskTimeout:
        raise
    except BaseException as e:   # a crashing harness is a broken check: fail loudly, never silently pass
        return {"harness_error": f"{type(e).__name__}: {e}\n{traceback.format_exc()}", "task": repr(task)[:300]}


def _until_incomplete(it):
    try:
        for r in it:
            yield r
    except _Incomplete:
        return


def run_property(prop_id, tier, seed, workers=None):
    t0 = time.time()
    modname = f"mc.props.{prop_id.lower()}"
    mod = importlib.import_module(modname)
    custom = hasattr(mod, "explore")
    tasks = [] if custom else list(mod.tasks(tier))
    n = len(tasks)
    if n and seed:
        r = seed % n
        tasks = tasks[r:] + tasks[:r]     # VERIF_SEED only rotates the visiting order; the explored set is fixed
    workers = workers or (min(16, os.cpu_count() or 1) if custom else min(16, os.cpu_count() or 1, max(1, n)))
    merged = {"states": 0, "transitions": 0, "validated": 0, "nontrivial": 0, "new_count": 0}
    outcomes = set(); new = []; known_hits = Counter(); samples = []; algos = Counter(); notes = Counter()
    scopes = {}; new_groups = Counter()
    errors = []
    timed_out = []
    stopped_early = False
    os.environ["VERIF_TIER_RUNNING"] = tier
    serial = getattr(mod, "SERIAL", False) or workers == 1
    if serial:
        _init_worker(modname)
        it = map(_work, tasks)
        pool = None
    else:
        ctx = mp.get_context("fork")
        pool = ctx.Pool(workers, initializer=_init_worker, initargs=(modname,))
        it = pool.imap_unordered(_work, tasks, chunksize=1)
    if custom:
        def pmap(fname, args):
            if pool is None:
                rs = [_call_named((fname, a)) for a in args]
            else:
                rs = pool.map(_call_named, [(fname, a) for a in args], chunksize=1)
            late = [r["timed_out"] for r in rs if isinstance(r, dict) and r.get("timed_out")]
            if late:
                timed_out.extend(late)
                raise _Incomplete()
            return rs
        it = mod.explore(tier, seed, pmap)
    try:
        for r in _until_incomplete(it):
            if "harness_error" in r:
                errors.append(r); continue
            r.setdefault("task_s", 0.0)
            if r.get("timed_out"):
                timed_out.append(r["timed_out"])
            for key in ("states", "transitions", "validated", "nontrivial", "new_count"):
                merged[key] += r[key]
            if len(outcomes) < 200000:
                outcomes |= r["outcomes"]
            new.extend(r["new"])
            for kk, vv in r["new_groups"].items(): new_groups[kk] += vv
            for kk, vv in r["known_hits"].items(): known_hits[kk] += vv
            samples.extend(r["samples"])
            for kk, vv in r["algos"].items(): algos[kk] += vv
            for kk, vv in r["notes"].items(): notes[kk] += vv
            sc = scopes.setdefault(r["scope"], {"tasks": 0, "states": 0, "transitions": 0, "cpu_s": 0.0})
            sc["tasks"] += 1; sc["states"] += r["states"]; sc["transitions"] += r["transitions"]
            sc["cpu_s"] = round(sc["cpu_s"] + r["task_s"], 2)
            if merged["new_count"] and os.environ.get("VERIF_STOP_FIRST"):
                # mutation sweeps only (tools/mutation_sweep.py): the verdict "violated" is already decided, skip the rest
                stopped_early = True
                if pool is not None:
                    pool.terminate()
                break
    finally:
        if pool is not None:
            pool.close(); pool.join()

    if errors:
        for e in errors[:3]:
            sys.stderr.write("HARNESS ERROR in task %s\n%s\n" % (e["task"], e["harness_error"]))
        print(f"HARNESS-ERROR property={prop_id} tasks_failed={len(errors)} (check is broken, not a verdict)")
        return 2

    # ---- known findings
    kn = load_known()
    hit_lines = []
    prop_known = [(i, e) for i, e in enumerate(kn["known"]) if e["property"] == prop_id]
    stale = []
    for i, e in prop_known:
        c = known_hits.get(i, 0)
        if c:
            print(f"KNOWN-FINDING: property={prop_id} {e['what']} [{c} points matched]")
            hit_lines.append({"what": e["what"], "points": c})
        else:
            stale.append(e["what"])

    # ---- new violations -> replay files
    new.sort(key=lambda v: (len(v["input"] or ""), v["key"]))
    replays = []
    seen_groups = set()
    rdir = os.path.join(VERIF, "replays")
    if new:
        os.makedirs(rdir, exist_ok=True)
    for v in new:
        g = (v["algo"], v["kind"], v["config"].split(";")[0])
        if g in seen_groups or len(replays) >= MAX_REPLAYS:
            continue
        seen_groups.add(g)
        path = os.path.join(rdir, f"{prop_id}-{len(replays) + 1}.json")
        rec = dict(v)
        rec["repro"] = _repro(mod, v)
        with open(path, "w") as f:
            json.dump(rec, f, indent=1, default=repr)
        replays.append(path)
        print(f"VIOLATION property={prop_id} replay={path}")
        print(f"  {v['algo']} [{v['config']}] input={v['input']} kind={v['kind']} expected={v['expected']} observed={v['observed']}")
    if merged["new_count"] and not replays:
        print(f"VIOLATION property={prop_id} replay=<none-kept>")

    samples.sort(key=lambda s: json.dumps(s, default=repr, sort_keys=True))
    wall = time.time() - t0
    cov = {
        "states": merged["states"], "transitions": merged["transitions"],
        "traces_validated_against_impl": merged["validated"],
        "evaluations": merged["transitions"], "distinct_nontrivial": merged["nontrivial"],
        "rule": getattr(mod, "RULE", ""),
        "samples": samples[:6] or ["<none>"],
        "exhaustive": not timed_out and not stopped_early,
        "tasks_timed_out": timed_out[:20],
        "bounds": getattr(mod, "bounds", lambda t: {})(tier),
        "scopes": scopes, "tasks": n, "workers": workers,
        "explorer": getattr(mod, "EXPLORER_STATS", None),
        "per_algorithm_executions": dict(sorted(algos.items())),
        "observed_outcomes": len(outcomes),
        "observations": dict(sorted(notes.items())),
        "known_findings_hit": hit_lines, "stale_known": stale,
        "new_violation_points": merged["new_count"],
        "new_violation_groups": {f"{a}|{k}": c for (a, k), c in sorted(new_groups.items())},
        "replays": replays,
        "engine": getattr(mod, "ENGINE", "E1"),
        "repo": os.environ.get("VERIF_REPO", "/repo"),
    }
    ev = {"property_id": prop_id, "tier": tier, "seed": seed, "level": getattr(mod, "LEVEL", "model_checking"),
          "coverage": cov, "assumptions": getattr(mod, "ASSUMPTIONS", []), "wall_s": round(wall, 2),
          "violations": merged["new_count"]}
    edir = os.environ.get("VERIF_EVIDENCE_DIR", os.path.join(VERIF, "evidence"))
    os.makedirs(edir, exist_ok=True)
    with open(os.path.join(edir, f"{prop_id}.json"), "w") as f:
        json.dump(ev, f, indent=1, default=repr, sort_keys=True)
    print(f"{prop_id} tier={tier} seed={seed} states={cov['states']} transitions={cov['transitions']} "
          f"validated={cov['traces_validated_against_impl']} nontrivial={cov['distinct_nontrivial']} "
          f"outcomes={cov['observed_outcomes']} known_hit={sum(known_hits.values())} new={merged['new_count']} wall={wall:.1f}s")
    if timed_out:
        print(f"INCOMPLETE property={prop_id}: {len(timed_out)} task(s) exceeded the per-task wall-clock budget of {_limit()} s and were dropped "
              f"(first: {timed_out[0][:120]}); the bounds stated in the evidence were NOT fully covered")
    return 1 if merged["new_count"] else (2 if timed_out else 0)


def _repro(mod, v):
    try:
        if hasattr(mod, "repro"):
            return mod.repro(v)
        from mc import repo
        c = v.get("case")
        if c and "algo" in c and "items" in c:
            return repo.repro_snippet(c)
    except Exception as e:
        return f"<no repro: {e}>"
    return None


def replay(prop_id, path):
    mod = importlib.import_module(f"mc.props.{prop_id.lower()}")
    with open(path) as f:
        rec = json.load(f)
    acc = Acc(prop_id, "replay")
    mod.replay(rec["case"], acc)
    res = acc.result()
    total = res["new_count"] + sum(res["known_hits"].values())
    if total:
        for v in res["new"]:
            print(f"  {v['algo']} [{v['config']}] input={v['input']} kind={v['kind']} expected={v['expected']} observed={v['observed']}")
        print(f"VIOLATION property={prop_id} replay={path}")
        return 1
    print(f"replay of {path}: property {prop_id} holds on this case")
    return 0


def main(argv):
    import argparse
    ap = argparse.ArgumentParser()
    ap.add_argument("prop", nargs="?")
    ap.add_argument("--tier", default=os.environ.get("VERIF_TIER", "quick"), choices=["quick", "thorough"])
    ap.add_argument("--replay")
    ap.add_argument("--selftest", action="store_true")
    ap.add_argument("--workers", type=int)
    a = ap.parse_args(argv)
    seed = int(os.environ.get("VERIF_SEED", "0") or 0)
    if a.selftest:
        from mc import selftest
        return selftest.main()
    if not a.prop:
        ap.error("property id required")
    if a.replay:
        return replay(a.prop.upper(), a.replay)
    return run_property(a.prop.upper(), a.tier, seed, a.workers)


if __name__ == "__main__":
    sys.exit(main(sys.argv[1:]))
