import sys
from mc.runner import main
sys.exit(main(sys.argv[1:]))
