"""
Executable reference models (DESIGN.md section 3): direct transcriptions of the rules stated in the
documentation and cited sources of the nine simple heuristics.  They work on plain values, return bins as
lists of values, and never import prtpy.
"""


def lpt(items, k):
    """Greedy / LPT: items in non-increasing order, each to a bin with the currently smallest sum."""
    bins = [[] for _ in range(k)]
    sums = [0] * k
    for v in sorted(items, reverse=True):
        i = min(range(k), key=sums.__getitem__)
        bins[i].append(v); sums[i] += v
    return bins


def round_robin(items, k):
    """Cyclic dealing of the items sorted in non-increasing order."""
    bins = [[] for _ in range(k)]
    for j, v in enumerate(sorted(items, reverse=True)):
        bins[j % k].append(v)
    return bins


def first_fit(items, B):
    """Each item, in arrival order, goes to the first (lowest-index) open bin it fits in; else a new bin is opened.
    (The library starts with one open empty bin.)"""
    bins, sums = [[]], [0]
    for v in items:
        for i in range(len(bins)):
            if sums[i] + v <= B:
                bins[i].append(v); sums[i] += v
                break
        else:
            bins.append([v]); sums.append(v)
    return bins


def best_fit(items, B):
    """Each item goes to the fullest open bin it still fits in; else a new bin is opened."""
    bins, sums = [[]], [0]
    for v in items:
        best = None
        for i in range(len(bins)):
            if sums[i] + v <= B and (best is None or sums[i] > sums[best]):
                best = i
        if best is None:
            bins.append([v]); sums.append(v)
        else:
            bins[best].append(v); sums[best] += v
    return bins


def ffd(items, B):
    return first_fit(sorted(items, reverse=True), B)


def bfd(items, B):
    return best_fit(sorted(items, reverse=True), B)


def _next_fit_cover(bins, B, sorted_items):
    """next-fit covering subroutine: add to the open (last) bin; once it reaches B, open a new one."""
    for v in sorted_items:
        bins[-1].append(v)
        if sum(bins[-1]) >= B:
            bins.append([])
    return bins


def nfd_cover(items, B):
    """'decreasing': next-fit on the items in non-increasing order; the trailing unfilled bin is dropped."""
    bins = _next_fit_cover([[]], B, sorted(items, reverse=True))
    return bins[:-1]


def two_thirds(items, B):
    """Csirik-Frenk-Labbe-Zhang 2/3 algorithm: open a bin with the largest remaining item, fill it with the smallest
    remaining items (ascending) until covered; the trailing unfilled bin is dropped."""
    rest = sorted(items, reverse=True)
    bins = [[]]
    while rest:
        bins[-1].append(rest.pop(0))
        while rest and sum(bins[-1]) < B:
            bins[-1].append(rest.pop())
        if sum(bins[-1]) >= B:
            bins.append([])
    return bins[:-1]


def three_quarters(items, B):
    """Csirik-Frenk-Labbe-Zhang 3/4 algorithm.  Classes: big (X) v >= B/2, medium (Y) B/3 <= v < B/2, small (Z) v < B/3.
    While small items and big-or-medium items both remain: open the bin with the biggest X item or the two biggest Y items,
    whichever totals more (the big item wins a tie), and fill with the smallest Z items until covered.
    When Z runs out: next-fit the remaining X, then the remaining Y, re-using the open bin.
    When X and Y run out: next-fit the remaining Z.  The trailing unfilled bin is dropped."""
    srt = sorted(items, reverse=True)
    X = [v for v in srt if 2 * v >= B]
    Y = [v for v in srt if 3 * v >= B and 2 * v < B]
    Z = [v for v in srt if 3 * v < B]
    bins = [[]]
    while True:
        if not Z:
            _next_fit_cover(bins, B, X); _next_fit_cover(bins, B, Y)
            break
        if not X and not Y:
            _next_fit_cover(bins, B, Z)
            break
        if sum(X[:1]) >= sum(Y[:2]):
            bins[-1].append(X.pop(0))
        else:
            for _ in range(min(2, len(Y))):
                bins[-1].append(Y.pop(0))
        while Z and sum(bins[-1]) < B:
            bins[-1].append(Z.pop())
        if sum(bins[-1]) >= B:
            bins.append([])
    return bins[:-1]


PARTITION_MODELS = {"greedy": lpt, "roundrobin": round_robin}
PACK_MODELS = {"ff": first_fit, "bf": best_fit, "ffd": ffd, "bfd": bfd}
COVER_MODELS = {"decreasing": nfd_cover, "twothirds": two_thirds, "threequarters": three_quarters}
# where the rule leaves no freedom, the bins themselves (as multisets of values) must agree:
EXACT_BINS = {"roundrobin", "ff", "ffd", "decreasing", "twothirds", "threequarters"}
