"""Bounded-exhaustive model checking of erelsgl/prtpy (see /verif/DESIGN.md)."""
