"""
Read-only fingerprint of every piece of module-level state of prtpy that could carry information from one call to
the next (DESIGN.md E4): module globals that are data, function defaults / keyword defaults / closure cells, class data
attributes, __dict__ of instances of prtpy classes reachable from those, itertools.count objects.
"""
import sys, types, logging, itertools
import numpy as np


def _render(x, depth, seen):
    if depth > 6:
        return "<deep>"
    if x is None or isinstance(x, (bool, int, float, complex, str, bytes)):
        return repr(x)
    if isinstance(x, (np.generic,)):
        return repr(x.item())
    if isinstance(x, np.ndarray):
        return "nd" + repr(x.tolist())
    if isinstance(x, (types.ModuleType, logging.Logger)):
        return f"<{type(x).__name__}>"
    if isinstance(x, (types.FunctionType, types.BuiltinFunctionType, types.MethodType, type, staticmethod, classmethod, property)):
        return f"<callable {getattr(x, '__qualname__', getattr(x, '__name__', '?'))}>"
    if isinstance(x, itertools.count):
        return repr(x)
    if id(x) in seen:
        return "<cycle>"
    seen = seen | {id(x)}
    if isinstance(x, (list, tuple)):
        return type(x).__name__ + "[" + ",".join(_render(v, depth + 1, seen) for v in x) + "]"
    if isinstance(x, (set, frozenset)):
        return "set{" + ",".join(sorted(_render(v, depth + 1, seen) for v in x)) + "}"
    if isinstance(x, dict):
        return "dict{" + ",".join(sorted(_render(k, depth + 1, seen) + ":" + _render(v, depth + 1, seen) for k, v in x.items())) + "}"
    mod = getattr(type(x), "__module__", "") or ""
    if mod.startswith("prtpy") or mod.startswith("pathlib"):
        d = getattr(x, "__dict__", None)
        body = _render(dict(d), depth + 1, seen) if isinstance(d, dict) else repr(x)
        return f"<{type(x).__qualname__} {body}>"
    return f"<{type(x).__module__}.{type(x).__qualname__}>"


def _function_state(f, out, label):
    if f.__defaults__:
        out[label + ".__defaults__"] = _render(f.__defaults__, 0, frozenset())
    if f.__kwdefaults__:
        out[label + ".__kwdefaults__"] = _render(f.__kwdefaults__, 0, frozenset())
    if f.__closure__:
        cells = []
        for c in f.__closure__:
            try:
                cells.append(_render(c.cell_contents, 0, frozenset()))
            except ValueError:
                cells.append("<empty>")
        out[label + ".__closure__"] = "|".join(cells)
    extra = {k: v for k, v in vars(f).items()}
    if extra:
        out[label + ".__dict__"] = _render(extra, 0, frozenset())


def fingerprint():
    """-> dict label -> rendering, over every loaded prtpy.* module"""
    out = {}
    for mname in sorted(m for m in sys.modules if m == "prtpy" or m.startswith("prtpy.")):
        mod = sys.modules[mname]
        if mod is None:
            continue
        for name, val in sorted(vars(mod).items()):
            if name.startswith("__") and name.endswith("__"):
                continue
            label = f"{mname}.{name}"
            if isinstance(val, types.FunctionType):
                if (val.__module__ or "").startswith("prtpy"):
                    _function_state(val, out, label)
            elif isinstance(val, type):
                if (val.__module__ or "").startswith("prtpy"):
                    for an, av in sorted(vars(val).items()):
                        if an.startswith("__") and an.endswith("__"):
                            continue
                        f = av.__func__ if isinstance(av, (staticmethod, classmethod)) else av
                        if isinstance(f, types.FunctionType):
                            _function_state(f, out, f"{label}.{an}")
                        elif not isinstance(av, (property, type)):
                            out[f"{label}.{an}"] = _render(av, 0, frozenset())
            elif isinstance(val, (types.ModuleType, logging.Logger, types.BuiltinFunctionType)):
                continue
            elif hasattr(val, "cache_info") and hasattr(val, "__wrapped__"):      # functools.lru_cache / cache
                if (getattr(val, "__module__", "") or "").startswith("prtpy"):
                    try:
                        out[label + ".<lru size>"] = repr(val.cache_info().currsize)
                    except Exception:
                        pass
            else:
                out[label] = _render(val, 0, frozenset())
    out.update(environment())
    out["<modules>"] = ",".join(sorted(m for m in sys.modules if m == "prtpy" or m.startswith("prtpy.")))
    return out


def environment():
    """process-wide settings outside prtpy that change what later arithmetic does"""
    import warnings
    env = {"<env> numpy error mode": repr(sorted(np.geterr().items())),
           "<env> warnings turned into errors": repr(sorted({(f[0], getattr(f[2], "__name__", str(f[2]))) for f in warnings.filters if f[0] == "error"})),
           "<env> recursion limit": repr(sys.getrecursionlimit())}
    return env


ENV_THAT_CHANGES_RESULTS = ("<env> numpy error mode", "<env> warnings turned into errors")


def diff(a, b):
    keys = sorted(set(a) | set(b))
    return {k: (a.get(k), b.get(k)) for k in keys if a.get(k) != b.get(k)}
