"""
Finite input spaces, enumerated completely and in a canonical, simplest-first order.
Nothing here draws anything at random.
"""
from itertools import combinations_with_replacement, product, permutations


def multisets(alphabet, nmin, nmax):
    """All multisets over `alphabet` with nmin..nmax elements, as non-increasing tuples."""
    alpha = sorted(alphabet, reverse=True)
    for n in range(nmin, nmax + 1):
        for c in combinations_with_replacement(alpha, n):
            yield c


def sequences(alphabet, nmin, nmax):
    """All sequences over `alphabet` with nmin..nmax elements."""
    alpha = sorted(alphabet)
    for n in range(nmin, nmax + 1):
        for s in product(alpha, repeat=n):
            yield s


def distinct_permutations(ms):
    """All distinct orderings of a multiset (lexicographic)."""
    seen = set()
    for p in permutations(sorted(ms)):
        if p not in seen:
            seen.add(p)
            yield p


def fixed_orders(ms):
    """Six deterministic arrival orders of a multiset (for inputs too long for all permutations)."""
    a = sorted(ms)
    n = len(a)
    outs = [tuple(a), tuple(reversed(a))]
    # interleave small/large
    lo, hi, il = 0, n - 1, []
    while lo <= hi:
        il.append(a[lo]); lo += 1
        if lo <= hi:
            il.append(a[hi]); hi -= 1
    outs.append(tuple(il))
    outs.append(tuple(reversed(il)))
    # rotate by n//2, and riffle (even positions then odd)
    outs.append(tuple(a[n // 2:] + a[:n // 2]))
    outs.append(tuple(a[0::2] + a[1::2]))
    res, seen = [], set()
    for o in outs:
        if o not in seen:
            seen.add(o); res.append(o)
    return res


def partitions_of(total, letters, maxparts=None):
    """All multisets of letters (non-increasing tuples) that sum to `total` - the 'patterns' of a planted family."""
    letters = sorted(set(letters), reverse=True)
    res = []

    def rec(rem, idx, cur):
        if rem == 0:
            res.append(tuple(cur)); return
        if maxparts is not None and len(cur) >= maxparts:
            return
        for j in range(idx, len(letters)):
            v = letters[j]
            if v <= rem:
                cur.append(v); rec(rem - v, j, cur); cur.pop()
    rec(total, 0, [])
    return res


def planted(total, letters, m, maxparts=None, maxitems=None):
    """Every multiset of m patterns (each a partition of `total` into letters): instances whose
    perfect m-way split / m-bin packing / m-bin exact cover is known by construction.
    Yields (items as non-increasing tuple, patterns)."""
    pats = partitions_of(total, letters, maxparts)
    for combo in combinations_with_replacement(pats, m):
        items = tuple(sorted((v for p in combo for v in p), reverse=True))
        if maxitems is not None and len(items) > maxitems:
            continue
        yield items, combo


def chunked(iterable, size):
    buf = []
    for x in iterable:
        buf.append(x)
        if len(buf) >= size:
            yield buf; buf = []
    if buf:
        yield buf


def compositions(total, k):
    """All k-tuples of non-negative integers with the given total."""
    if k == 1:
        yield (total,); return
    for first in range(total + 1):
        for rest in compositions(total - first, k - 1):
            yield (first,) + rest
