"""
Clock seam (DESIGN.md section 1 / E3): replaces, inside one module's namespace, every global that is the `time` module
(or a function taken from it) by a deterministic counting clock, and restores it afterwards.
"""
import time as _time
import types


class CountingClock:
    """successive readings return 0, 1, 2, ...  (monotone; the same object serves perf_counter/time/monotonic)"""
    def __init__(self):
        self.readings = 0

    def _read(self):
        v = self.readings
        self.readings += 1
        return float(v)

    perf_counter = time = monotonic = process_time = _read

    def sleep(self, *_):
        pass


class ShiftedClock:
    """the real clocks advanced by a constant: what every clock of a process that was started `offset` seconds earlier reads"""
    def __init__(self, offset):
        self.offset = offset

    def perf_counter(self): return _time.perf_counter() + self.offset
    def time(self): return _time.time() + self.offset
    def monotonic(self): return _time.monotonic() + self.offset
    def process_time(self): return _time.process_time() + self.offset
    def sleep(self, *_): pass


class aged_process:
    """inside the block every prtpy module that refers to the `time` module or to one of its clock functions sees clocks
    shifted by `offset` seconds, as if the interpreter (and the import of prtpy) were that much older than the call"""
    def __init__(self, offset=1e6):
        self.clock = ShiftedClock(offset)
        self.saved = []

    def __enter__(self):
        import sys
        for mname, mod in list(sys.modules.items()):
            if mod is None or not (mname == "prtpy" or mname.startswith("prtpy.")):
                continue
            g = vars(mod)
            for name, val in list(g.items()):
                if val is _time:
                    self.saved.append((g, name, val)); g[name] = self.clock
                elif isinstance(val, types.BuiltinFunctionType) and getattr(val, "__module__", None) == "time" \
                        and val.__name__ in ("perf_counter", "time", "monotonic", "process_time"):
                    self.saved.append((g, name, val)); g[name] = getattr(self.clock, val.__name__)
        return self

    def __exit__(self, *exc):
        for g, name, val in self.saved:
            g[name] = val
        return False


class patched_clock:
    def __init__(self, module):
        self.module = module
        self.clock = CountingClock()
        self.saved = {}

    def __enter__(self):
        g = vars(self.module)
        for name, val in list(g.items()):
            if val is _time:
                self.saved[name] = val; g[name] = self.clock
            elif isinstance(val, types.BuiltinFunctionType) and getattr(val, "__module__", None) == "time" \
                    and val.__name__ in ("perf_counter", "time", "monotonic", "process_time"):
                self.saved[name] = val; g[name] = self.clock._read
        return self.clock

    def __exit__(self, *exc):
        vars(self.module).update(self.saved)
        return False
