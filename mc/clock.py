"""
Clock seam (DESIGN.md section 1 / E3): replaces, inside one module's namespace, every global that is the `time` module
(or a function taken from it) by a deterministic counting clock, and restores it afterwards.
"""
import time as _time
import types


class CountingClock:
    """successive readings return 0, 1, 2, ...  (monotone; the same object serves perf_counter/time/monotonic)"""
    def __init__(self):
        self.readings = 0

    def _read(self):
        v = self.readings
        self.readings += 1
        return float(v)

    perf_counter = time = monotonic = process_time = _read

    def sleep(self, *_):
        pass


class patched_clock:
    def __init__(self, module):
        self.module = module
        self.clock = CountingClock()
        self.saved = {}

    def __enter__(self):
        g = vars(self.module)
        for name, val in list(g.items()):
            if val is _time:
                self.saved[name] = val; g[name] = self.clock
            elif isinstance(val, types.BuiltinFunctionType) and getattr(val, "__module__", None) == "time" \
                    and val.__name__ in ("perf_counter", "time", "monotonic", "process_time"):
                self.saved[name] = val; g[name] = self.clock._read
        return self.clock

    def __exit__(self, *exc):
        vars(self.module).update(self.saved)
        return False
