"""
Binding to the code under test (DESIGN.md section 1).

* puts $VERIF_REPO (default /repo) first on sys.path and asserts that the
  imported prtpy really comes from there (the editable install and a mutant
  copy must never be confused);
* builds the algorithm registry by name from the public namespaces;
* turns a JSON-able *case* into a real call and a normalised observation.

Nothing in here judges anything.
"""
import os, sys, importlib

REPO = os.path.realpath(os.environ.get("VERIF_REPO", "/repo"))
if sys.path[0] != REPO:
    sys.path.insert(0, REPO)
os.environ.setdefault("PYTHONHASHSEED", "0")
sys.dont_write_bytecode = True

import warnings
warnings.simplefilter("ignore")   # numpy RuntimeWarnings of the code under test are not observations
import numpy as np
import prtpy

_real = os.path.realpath(prtpy.__file__)
assert _real.startswith(REPO + os.sep), f"prtpy imported from {_real}, expected under {REPO}"


def submodule(name):
    """prtpy.partitioning / prtpy.packing are classes shadowing the packages."""
    return importlib.import_module(name)


cg_mod = submodule("prtpy.partitioning.complete_greedy")
ckk_mod = submodule("prtpy.partitioning.complete_karmarkar_karp_sy")
cbldm_mod = submodule("prtpy.partitioning.cbldm")
ilp_mod = submodule("prtpy.partitioning.integer_programming")
bf_mod = submodule("prtpy.packing.best_fit")
ff_mod = submodule("prtpy.packing.first_fit")
bc_mod = submodule("prtpy.packing.bin_completion")
bcu_mod = submodule("prtpy.packing.bin_completion_utils")
tree_mod = submodule("prtpy.inclusion_exclusion_tree")
snp_mod = submodule("prtpy.partitioning.sequential_number_partitioning_sy")
rnp_mod = submodule("prtpy.partitioning.recursive_number_partitioning_sy")
kk_mod = submodule("prtpy.partitioning.karmarkar_karp_sy")
dp_mod = submodule("prtpy.partitioning.dynamic_programming")
cflz_mod = submodule("prtpy.packing.cflz_covering")
gcov_mod = submodule("prtpy.packing.greedy_covering")

out = prtpy.out
obj = prtpy.obj

PARTITIONERS = {
    "greedy": prtpy.partitioning.greedy,
    "roundrobin": prtpy.partitioning.roundrobin,
    "multifit": prtpy.partitioning.multifit,
    "kk": prtpy.partitioning.kk,
    "cg": prtpy.partitioning.complete_greedy,
    "ckk": prtpy.partitioning.ckk,
    "snp": prtpy.partitioning.snp,
    "rnp": prtpy.partitioning.rnp,
    "dp": prtpy.partitioning.dp,
    "ilp": prtpy.partitioning.ilp,
    "cbldm": prtpy.partitioning.cbldm,
}
PACKERS = {
    "ff": prtpy.packing.first_fit,
    "ffd": prtpy.packing.first_fit_decreasing,
    "bf": bf_mod.online,
    "bfd": bf_mod.decreasing,
    "bc": prtpy.packing.bin_completion,
}
COVERS = {
    "decreasing": prtpy.covering.decreasing,
    "twothirds": prtpy.covering.twothirds,
    "threequarters": prtpy.covering.threequarters,
}
ALGOS = {}
ALGOS.update(PARTITIONERS); ALGOS.update(PACKERS); ALGOS.update(COVERS)


def family(algo):
    return "partition" if algo in PARTITIONERS else ("pack" if algo in PACKERS else "cover")


OUTPUTTYPES = {
    "Sums": out.Sums, "LargestSum": out.LargestSum, "SmallestSum": out.SmallestSum,
    "ExtremeSums": out.ExtremeSums, "SortedSums": out.SortedSums, "Difference": out.Difference,
    "BinCount": out.BinCount, "Partition": out.Partition,
    "PartitionAndSumsTuple": out.PartitionAndSumsTuple, "PartitionAndSums": out.PartitionAndSums,
}

FORMATS = ("list", "array", "dict_str", "dict_int", "dict_idx", "names", "names_rep", "array_names")


class NamedValues(dict):
    """name -> value, plus the list of names as presented (which may repeat a name: format names_rep)"""
    names_list = None


SHARE_OBJECTIVES = [False]      # C15 chains: one objective object per spec for the whole process, as a caller re-using it would
_OBJ_CACHE = {}


def objective(spec):
    """'MinimizeDifference' | 'MinimizeLargestSum' | 'MaximizeSmallestSum' |
    'MaximizeKSmallestSums(2)' | 'MinimizeKLargestSums(2)' | 'MaximizeSmallestWeightedSum([1,2])'"""
    if "(" not in spec:
        return getattr(obj, spec)
    if SHARE_OBJECTIVES[0] and spec in _OBJ_CACHE:
        return _OBJ_CACHE[spec]
    name, arg = spec.split("(", 1)
    import json
    o = getattr(obj, name)(json.loads(arg[:-1]))
    if SHARE_OBJECTIVES[0]:
        _OBJ_CACHE[spec] = o
    return o


# one names list, one value table and one value function for the whole process (format names_shared): the caller keeps the
# same objects and changes the data in place between calls
SHARED_DICT = {}
SHARED_LIST = []
SHARED_NAMES = []
SHARED_VALUES = {}


def shared_valueof(name):
    return SHARED_VALUES[name]


def names_for(values, kind):
    """Distinct names, *anti-correlated* with the values: the largest value gets the
    smallest name.  Integer names are larger than any bin size used anywhere."""
    order = sorted(range(len(values)), key=lambda i: (-values[i], i))
    rank = {pos: r for r, pos in enumerate(order)}
    if kind == "int":
        return [1000 + rank[i] for i in range(len(values))]
    return ["i%02d" % rank[i] for i in range(len(values))]


def present(values, fmt):
    """-> (items argument, valueof argument or None, name->value dict or None)"""
    values = list(values)
    if fmt == "list":
        return values, None, None
    if fmt == "array":
        return np.array(values, dtype=np.int64) if all(isinstance(v, int) for v in values) else np.array(values), None, None
    if fmt == "names_shared":
        nm = ["s%02d" % i for i in range(len(values))]
        SHARED_NAMES[:] = nm
        SHARED_VALUES.clear(); SHARED_VALUES.update(zip(nm, values))
        d = NamedValues(zip(nm, values)); d.names_list = list(nm)
        return SHARED_NAMES, shared_valueof, d
    if fmt == "list_shared":
        # ONE list object for the whole process, overwritten in place between calls
        SHARED_LIST[:] = list(values)
        return SHARED_LIST, None, None
    if fmt == "dict_shared":
        # ONE dict object for the whole process, updated in place between calls and passed as `items`
        nm = ["s%02d" % i for i in range(len(values))]
        SHARED_DICT.clear(); SHARED_DICT.update(zip(nm, values))
        d = NamedValues(zip(nm, values)); d.names_list = list(nm)
        return SHARED_DICT, None, d
    if fmt == "names_rep":
        # one name per distinct VALUE (anti-correlated), so equal values are the same name repeated in the list
        distinct = sorted(set(values), reverse=True)
        label = {v: "v%02d" % r for r, v in enumerate(distinct)}
        d = NamedValues((label[v], v) for v in distinct)
        d.names_list = [label[v] for v in values]
        return list(d.names_list), d.__getitem__, d
    if fmt == "array_names":
        # a numpy array of integer identifiers + a value function
        nm = names_for(values, "int")
        d = NamedValues(zip(nm, values))
        d.names_list = list(nm)
        return np.array(nm, dtype=np.int64), (lambda x, d=d: d[int(x)]), d
    if fmt == "dict_idx":
        # names are the small integers 0..n-1 (as in dict(enumerate(sizes))), largest value = name 0: names look like values
        nm = [n - 1000 for n in names_for(values, "int")]
        d = dict(zip(nm, values))
        return d, None, d
    kind = "int" if fmt == "dict_int" else "str"
    nm = names_for(values, kind)
    d = dict(zip(nm, values))
    if fmt in ("dict_str", "dict_int"):
        return d, None, d
    if fmt == "names":
        d = NamedValues(d); d.names_list = list(nm)
        return list(nm), d.__getitem__, d
    raise ValueError(fmt)


def _plain(x):
    """numpy -> python, recursively; used to normalise results."""
    if isinstance(x, np.ndarray):
        return [_plain(v) for v in x.tolist()]
    if isinstance(x, np.generic):
        return x.item()
    if isinstance(x, (list, tuple)):
        t = [_plain(v) for v in x]
        return t if isinstance(x, list) else tuple(t)
    if isinstance(x, out.PartitionAndSums.Struct):
        return {"sums": _plain(x.sums), "lists": _plain(x.lists)}
    return x


def constraint_fn(spec):
    """["eq0", c] smallest sum == c | ["le_last", c] largest sum <= c | ["ge0", c] smallest sum >= c | list of those"""
    specs = spec if spec and isinstance(spec[0], list) else [spec]

    def fn(sums):
        out = []
        for kind, c in specs:
            if kind == "eq0": out.append(sums[0] == c)
            elif kind == "le_last": out.append(sums[-1] <= c)
            elif kind == "ge0": out.append(sums[0] >= c)
            else: raise ValueError(kind)
        return out
    return fn


def build_kwargs(kw):
    kwargs = {}
    for key, v in (kw or {}).items():
        if key == "objective":
            kwargs[key] = objective(v)
        elif key == "additional_constraints":
            kwargs[key] = constraint_fn(v)
        else:
            kwargs[key] = v
    return kwargs


def call(case):
    """Execute one case against the real code.

    case: {"algo","items",("k"|"B"),"fmt"(list),"out"(PartitionAndSumsTuple),"kw"{}}
    -> ("ok", plain_result, name->value dict or None) | ("exc", type_name, message)
    """
    algo = case["algo"]
    fn = ALGOS[algo]
    items, valueof, d = present(case["items"], case.get("fmt", "list"))
    ot = OUTPUTTYPES[case.get("out", "PartitionAndSumsTuple")]
    kwargs = build_kwargs(case.get("kw"))
    try:
        if algo in PARTITIONERS:
            r = prtpy.partition(algorithm=fn, numbins=case["k"], items=items, valueof=valueof, outputtype=ot, **kwargs)
        else:
            r = prtpy.pack(algorithm=fn, binsize=case["B"], items=items, valueof=valueof, outputtype=ot, **kwargs)
    except Exception as e:  # observations, not crashes
        return ("exc", type(e).__name__, str(e)[:200])
    return ("ok", _plain(r), d)


def repro_snippet(case):
    """A stand-alone python program that re-executes the case (for replays / triage)."""
    algo = case["algo"]
    fam = family(algo)
    fnexpr = {
        "greedy": "prtpy.partitioning.greedy", "roundrobin": "prtpy.partitioning.roundrobin",
        "multifit": "prtpy.partitioning.multifit", "kk": "prtpy.partitioning.kk",
        "cg": "prtpy.partitioning.complete_greedy", "ckk": "prtpy.partitioning.ckk",
        "snp": "prtpy.partitioning.snp", "rnp": "prtpy.partitioning.rnp", "dp": "prtpy.partitioning.dp",
        "ilp": "prtpy.partitioning.ilp", "cbldm": "prtpy.partitioning.cbldm",
        "ff": "prtpy.packing.first_fit", "ffd": "prtpy.packing.first_fit_decreasing",
        "bf": "importlib.import_module('prtpy.packing.best_fit').online",
        "bfd": "importlib.import_module('prtpy.packing.best_fit').decreasing",
        "bc": "prtpy.packing.bin_completion",
        "decreasing": "prtpy.covering.decreasing", "twothirds": "prtpy.covering.twothirds",
        "threequarters": "prtpy.covering.threequarters",
    }[algo]
    kw = []
    for key, v in (case.get("kw") or {}).items():
        if key == "objective":
            kw.append(f"objective=prtpy.obj.{v}")
        else:
            kw.append(f"{key}={v!r}")
    items, valueof, d = present(case["items"], case.get("fmt", "list"))
    fmt = case.get("fmt", "list")
    if fmt == "array":
        it = f"np.array({list(case['items'])!r})"
        vo = ""
    elif fmt in ("names", "names_rep"):
        it = repr(list(getattr(d, "names_list", None) or d.keys()))
        vo = f", valueof={dict(d)!r}.__getitem__"
    elif fmt == "array_names":
        it = f"np.array({list(d.keys())!r})"
        vo = f", valueof=lambda x: {dict(d)!r}[int(x)]"
    else:
        it = repr(items)
        vo = ""
    size = f"numbins={case['k']}" if fam == "partition" else f"binsize={case['B']}"
    entry = "partition" if fam == "partition" else "pack"
    return (
        "import importlib, numpy as np, prtpy\n"
        f"print(prtpy.{entry}(algorithm={fnexpr}, {size}, items={it}{vo}, "
        f"outputtype=prtpy.out.{case.get('out', 'PartitionAndSumsTuple')}"
        + ("".join(", " + k for k in kw)) + "))\n"
    )


# --------------------------------------------------------------------------- solver seam (C02 / C17)

class _MipShim:
    """Stands in for the `mip` module inside prtpy's integer_programming namespace; everything is
    forwarded to the real module except Model, which is wrapped."""
    def __init__(self, real, model_factory):
        self._real = real
        self.Model = model_factory

    def __getattr__(self, name):
        return getattr(self._real, name)


def with_mip_model(model_factory, fn):
    real = ilp_mod.mip
    ilp_mod.mip = _MipShim(real, model_factory)
    try:
        return fn()
    finally:
        ilp_mod.mip = real


def call_ilp_no_preprocess(case):
    import mip

    def factory(*a, **k):
        m = mip.Model(*a, **k)
        m.preprocess = 0
        return m
    return with_mip_model(factory, lambda: call(case))


def call_ilp_forced_status(case, status):
    """Fault injection: the real solve happens, then `optimize` answers `status`."""
    import mip

    class M(mip.Model):
        def optimize(self, *a, **k):
            super().optimize(*a, **k)
            return status
    return with_mip_model(M, lambda: call(case))
