"""Cross-validates every oracle against a second, differently structured implementation
on a complete small scope (DESIGN.md section 3).  Run as MANIFEST.setup_cmd."""
import sys, time
from . import oracles as O, spaces


def main():
    t0 = time.time(); n = 0
    for ms in spaces.multisets(range(0, 6), 1, 6):
        for k in range(1, 5):
            a = O.opt_partition(ms, k); b = O.opt_partition_alt(ms, k)
            assert a == b, ("opt_partition", ms, k, a, b); n += 1
        for d in (None, 1, 2, 3):
            assert O.opt_two_way(ms, d) == O.opt_two_way_alt(ms, d), ("opt_two_way", ms, d); n += 1
    for B in (6, 10):
        for ms in spaces.multisets(range(0, B + 1), 1, 6):
            assert O.opt_pack(ms, B) == O.opt_pack_alt(ms, B), ("opt_pack", ms, B); n += 1
    for B in (6, 10):
        for ms in spaces.multisets(range(1, B + 4), 1, 6):
            assert O.opt_cover(ms, B) == O.opt_cover_alt(ms, B), ("opt_cover", ms, B); n += 1
    print(f"selftest ok: {n} oracle cross-validations in {time.time()-t0:.1f}s")
    return 0


if __name__ == "__main__":
    sys.exit(main())
