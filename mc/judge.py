"""
Judgements shared by several properties.  A judgement takes the *observation* of a real call
(mc.repo.call) and the case, and yields (kind, expected, observed) triples; it never calls prtpy.
"""
from collections import Counter


def cfg_str(case):
    kw = case.get("kw") or {}
    parts = []
    if "objective" in kw:
        parts.append("obj=" + kw["objective"])
    parts.append("fmt=" + case.get("fmt", "list"))
    parts.append("out=" + case.get("out", "PartitionAndSumsTuple"))
    for k in sorted(kw):
        if k != "objective":
            parts.append(f"{k}={kw[k]}")
    return ";".join(parts)


def inp_str(case):
    size = f"k={case['k']}" if "k" in case else f"B={case['B']}"
    return f"{list(case['items'])};{size}"


def values_of(lists, d):
    """bins of names -> bins of values"""
    if d is None:
        return [list(b) for b in lists]
    return [[d[x] for x in b] for b in lists]


def expected_names(case, d):
    if d is None:
        return list(case["items"])
    return list(getattr(d, "names_list", None) or d.keys())


def judge_partition(case, obs, allow_fewer=False):
    """C01 judgement on a PartitionAndSumsTuple observation."""
    if obs[0] == "exc":
        yield ("raises", "a partition", f"{obs[1]}: {obs[2]}"); return
    r, d = obs[1], obs[2]
    if r is None:
        yield ("none_result", "a partition", "None"); return
    try:
        sums, lists = r
        lists = [list(b) for b in lists]
        sums = list(sums)
    except Exception:
        yield ("malformed_result", "(sums, lists)", repr(r)[:120]); return
    k = case["k"]
    if len(lists) != len(sums):
        yield ("sums_lists_length", len(lists), len(sums))
    if (len(lists) > k) if allow_fewer else (len(lists) != k):
        yield ("numbins", k, len(lists))
    got = Counter(x for b in lists for x in b)
    want = Counter(expected_names(case, d))
    if got != want:
        yield ("lost_or_invented", f"missing={sorted((want - got).elements(), key=repr)}",
               f"extra={sorted((got - want).elements(), key=repr)}")
    vals = values_of(lists, d) if got == want or d is None else None
    if vals is not None:
        for i, b in enumerate(vals):
            try:
                if i < len(sums) and sums[i] != sum(b):
                    yield ("sum_mismatch", f"bin {i} sum {sum(b)}", sums[i]); break
            except TypeError:
                break


def judge_packing(case, obs, zeros_optional=False):
    """C03 judgement on a PartitionAndSumsTuple observation of a packer."""
    if obs[0] == "exc":
        yield ("raises", "a packing", f"{obs[1]}: {obs[2]}"); return
    r, d = obs[1], obs[2]
    if r is None:
        yield ("none_result", "a packing", "None"); return
    try:
        sums, lists = r
        lists = [list(b) for b in lists]; sums = list(sums)
    except Exception:
        yield ("malformed_result", "(sums, lists)", repr(r)[:120]); return
    B = case["B"]
    if len(lists) != len(sums):
        yield ("sums_lists_length", len(lists), len(sums))
    got = Counter(x for b in lists for x in b)
    want = Counter(expected_names(case, d))
    ok_names = True
    if got != want:
        missing = want - got; extra = got - want
        val = (lambda x: d[x]) if d is not None else (lambda x: x)
        if extra or not zeros_optional or any(val(x) != 0 for x in missing.elements()):
            ok_names = False
            yield ("lost_or_invented", f"missing={sorted(missing.elements(), key=repr)}",
                   f"extra={sorted(extra.elements(), key=repr)}")
    if ok_names or d is None:
        try:
            vals = values_of(lists, d)
        except KeyError:
            vals = None
        if vals is not None:
            for i, b in enumerate(vals):
                s = sum(b)
                if s > B:
                    yield ("overfull_bin", f"<= {B}", f"bin {i} = {b}"); break
            for i, b in enumerate(vals):
                if i < len(sums) and sums[i] != sum(b):
                    yield ("sum_mismatch", f"bin {i} sum {sum(b)}", sums[i]); break
    nonempty_input = len(case["items"]) > 0
    if zeros_optional:
        nonempty_input = any(v != 0 for v in case["items"])
    if nonempty_input:
        for i, b in enumerate(lists):
            if not b:
                yield ("empty_bin", "no empty bin", f"bin {i} empty of {len(lists)}"); break


def judge_cover(case, obs):
    """C05 judgement on a PartitionAndSumsTuple observation of a covering algorithm."""
    if obs[0] == "exc":
        yield ("raises", "a cover", f"{obs[1]}: {obs[2]}"); return
    r, d = obs[1], obs[2]
    if r is None:
        yield ("none_result", "a cover", "None"); return
    try:
        sums, lists = r
        lists = [list(b) for b in lists]; sums = list(sums)
    except Exception:
        yield ("malformed_result", "(sums, lists)", repr(r)[:120]); return
    B = case["B"]
    if len(lists) != len(sums):
        yield ("sums_lists_length", len(lists), len(sums))
    got = Counter(x for b in lists for x in b)
    want = Counter(expected_names(case, d))
    extra = got - want
    if extra:
        yield ("invented_or_reused", "each input item at most once", f"extra={sorted(extra.elements(), key=repr)}")
        return
    val = (lambda x: d[x]) if d is not None else (lambda x: x)
    vals = [[val(x) for x in b] for b in lists]
    for i, b in enumerate(vals):
        if sum(b) < B:
            yield ("uncovered_bin", f">= {B}", f"bin {i} = {b}"); break
    for i, b in enumerate(vals):
        if i < len(sums) and sums[i] != sum(b):
            yield ("sum_mismatch", f"bin {i} sum {sum(b)}", sums[i]); break
    unused = sum(val(x) for x in (want - got).elements())
    if not unused < B:
        yield ("waste", f"unused total < {B}", unused)
