"""
Brute-force optimisers and definitions used as oracles (DESIGN.md section 3).

They never import prtpy.  Each optimiser has a second, differently structured
implementation (suffix _alt) that `./check --selftest` cross-validates it against.
All arithmetic is exact (ints / Fractions).
"""
from functools import lru_cache
from itertools import combinations


# --------------------------------------------------------------------------- partitions

@lru_cache(maxsize=200000)
def opt_partition(items, k):
    """Optimum of every sum-based objective over all partitions of `items` (a tuple) into k bins
    (empty bins allowed).  Enumerates restricted-growth strings.
    -> dict(largest=min max, smallest=max min, diff=min (max-min),
            ksmall=[max sum of the j smallest sums, j=1..k], klarge=[min sum of the j largest, j=1..k])"""
    items = tuple(sorted(items, reverse=True))
    n = len(items)
    best = {"largest": None, "smallest": None, "diff": None,
            "ksmall": [None] * k, "klarge": [None] * k}
    sums = [0] * k

    def leaf():
        s = sorted(sums)
        lo, hi = s[0], s[-1]
        if best["largest"] is None or hi < best["largest"]: best["largest"] = hi
        if best["smallest"] is None or lo > best["smallest"]: best["smallest"] = lo
        d = hi - lo
        if best["diff"] is None or d < best["diff"]: best["diff"] = d
        acc = 0
        ks = best["ksmall"]
        for j in range(k):
            acc += s[j]
            if ks[j] is None or acc > ks[j]: ks[j] = acc
        acc = 0
        kl = best["klarge"]
        for j in range(k):
            acc += s[k - 1 - j]
            if kl[j] is None or acc < kl[j]: kl[j] = acc

    def rec(i, used):
        if i == n:
            leaf(); return
        v = items[i]
        top = min(used + 1, k)
        for b in range(top):
            sums[b] += v
            rec(i + 1, used + 1 if b == used else used)
            sums[b] -= v

    rec(0, 0)
    return best


def opt_partition_alt(items, k):
    """Second implementation: layer-by-layer DP over sets of sorted sum vectors."""
    states = {(0,) * k}
    for v in items:
        nxt = set()
        for st in states:
            prev = None
            for b in range(k):
                if st[b] == prev:
                    continue
                prev = st[b]
                t = list(st); t[b] += v; t.sort()
                nxt.add(tuple(t))
        states = nxt
    return {
        "largest": min(s[-1] for s in states),
        "smallest": max(s[0] for s in states),
        "diff": min(s[-1] - s[0] for s in states),
        "ksmall": [max(sum(s[:j]) for s in states) for j in range(1, k + 1)],
        "klarge": [min(sum(s[k - j:]) for s in states) for j in range(1, k + 1)],
    }


def objective_value(spec, sums):
    """The documented definition of each objective on a plain list of sums (C20 `definitions`).
    spec as in mc.repo.objective; smaller is better."""
    s = sorted(sums)
    if spec == "MinimizeDifference": return s[-1] - s[0]
    if spec == "MinimizeLargestSum": return s[-1]
    if spec == "MaximizeSmallestSum": return -s[0]
    name, arg = spec.split("(", 1)
    arg = arg[:-1]
    if name == "MaximizeKSmallestSums": return -sum(s[:int(arg)])
    if name == "MinimizeKLargestSums":
        j = int(arg)
        return sum(s[-j:]) if j > 0 else sum(s)
    raise ValueError(spec)


@lru_cache(maxsize=20000)
def opt_partition_dp(items, k):
    """opt_partition for inputs with many items over a tiny alphabet: the layer-by-layer DP over sets of sorted sum vectors
    (the second implementation, cross-validated against the enumeration by ./check --selftest) - polynomial when the
    number of distinct reachable sum vectors is small."""
    return opt_partition_alt(items, k)


def optimum_value(spec, items, k, dp=False):
    """Optimal value (smaller is better) of objective `spec` over all k-partitions of items."""
    key = tuple(sorted(items, reverse=True))
    o = opt_partition_dp(key, k) if dp else opt_partition(key, k)
    if spec == "MinimizeDifference": return o["diff"]
    if spec == "MinimizeLargestSum": return o["largest"]
    if spec == "MaximizeSmallestSum": return -o["smallest"]
    name, arg = spec.split("(", 1)
    j = int(arg[:-1])
    total = sum(items)
    if name == "MaximizeKSmallestSums":
        return -(o["ksmall"][j - 1] if j <= k else total)
    if name == "MinimizeKLargestSums":
        return o["klarge"][j - 1] if j <= k else total
    raise ValueError(spec)


# --------------------------------------------------------------------------- balanced two-way

@lru_cache(maxsize=200000)
def opt_two_way(items, d):
    """min |sum(A)-sum(B)| over two-way partitions with | |A|-|B| | <= d (d None = unbounded).
    Reachable (cardinality, sum) pairs of one side."""
    n = len(items); total = sum(items)
    reach = {(0, 0)}
    for v in items:
        reach |= {(c + 1, s + v) for (c, s) in reach}
    best = None
    for c, s in reach:
        if d is not None and abs(c - (n - c)) > d:
            continue
        g = abs(total - 2 * s)
        if best is None or g < best:
            best = g
    return best


def opt_two_way_alt(items, d):
    n = len(items); total = sum(items); best = None
    for mask in range(1 << n):
        c = bin(mask).count("1")
        if d is not None and abs(2 * c - n) > d:
            continue
        s = sum(items[i] for i in range(n) if mask >> i & 1)
        g = abs(total - 2 * s)
        if best is None or g < best: best = g
    return best


# --------------------------------------------------------------------------- bin packing

@lru_cache(maxsize=400000)
def opt_pack(items, B):
    """Minimum number of bins of capacity B holding all items (zero-valued items cost nothing,
    but a non-empty input needs at least... the *count of bins with positive items*; an all-zero
    input needs 0 bins by this definition, callers that need max(1,.) say so)."""
    its = tuple(sorted((v for v in items if v != 0), reverse=True))
    n = len(its)
    if n == 0:
        return 0
    assert its[0] <= B, (its, B)
    total = sum(its)
    lb = -(-total // B) if isinstance(total, int) and isinstance(B, int) else None
    best = [n]
    loads = []

    def rec(i):
        if len(loads) >= best[0]:
            return
        if i == n:
            best[0] = len(loads); return
        v = its[i]
        seen = set()
        for b in range(len(loads)):
            l = loads[b]
            if l + v <= B and l not in seen:
                seen.add(l)
                loads[b] = l + v
                rec(i + 1)
                loads[b] = l
                if lb is not None and best[0] == lb: return
        if len(loads) + 1 < best[0]:
            loads.append(v)
            rec(i + 1)
            loads.pop()

    rec(0)
    return best[0]


def opt_pack_alt(items, B):
    """Second implementation: subset DP (min bins, min last load), lexicographic."""
    its = [v for v in items if v != 0]
    n = len(its)
    if n == 0:
        return 0
    INF = (n + 1, 0)
    f = [INF] * (1 << n)
    f[0] = (0, B)  # zero bins, 'last bin' full so the first item opens one
    for mask in range(1, 1 << n):
        bst = INF
        for i in range(n):
            if mask >> i & 1:
                c, l = f[mask ^ (1 << i)]
                cand = (c, l + its[i]) if l + its[i] <= B else (c + 1, its[i])
                if cand < bst: bst = cand
        f[mask] = bst
    return f[(1 << n) - 1][0]


# --------------------------------------------------------------------------- bin covering

def opt_cover(items, B):
    """Maximum number of disjoint sub-collections each with total >= B.
    DP over count vectors of the distinct values; state value = lexicographic max of
    (bins covered, fill of the open bin) over all orders of feeding the chosen items into
    a 'close the bin as soon as it is covered' process - exact (monotone exchange argument,
    DESIGN.md section 3)."""
    from collections import Counter
    cnt = Counter(items)
    vals = sorted(cnt)
    start = tuple(cnt[v] for v in vals)
    # forward DP over 'taken' count vectors, one layer per number of items taken
    best = {tuple(0 for _ in vals): (0, 0)}
    frontier = [tuple(0 for _ in vals)]
    ans = 0
    while frontier:
        nxt = {}
        for st in frontier:
            c, p = best[st]
            for j, v in enumerate(vals):
                if st[j] < start[j]:
                    t = st[:j] + (st[j] + 1,) + st[j + 1:]
                    cand = (c + 1, 0) if p + v >= B else (c, p + v)
                    old = nxt.get(t)
                    if old is None or cand > old:
                        nxt[t] = cand
        best = nxt
        frontier = list(nxt)
        for cand in nxt.values():
            if cand[0] > ans: ans = cand[0]
    return ans


def opt_cover_alt(items, B):
    """Second implementation: recursive choice of the sub-collection containing the largest
    remaining item, or dropping that item (exponential; for small inputs only)."""
    its = tuple(sorted(items, reverse=True))

    @lru_cache(maxsize=None)
    def rec(rem):
        if sum(rem) < B or not rem:
            return 0
        first, rest = rem[0], rem[1:]
        best = rec(rest)  # drop the largest item
        n = len(rest)
        seen = set()
        # choose a minimal-by-inclusion completion is not required for correctness: try all subsets
        for r in range(0, n + 1):
            for idx in combinations(range(n), r):
                sub = tuple(rest[i] for i in idx)
                if sub in seen: continue
                seen.add(sub)
                if first + sum(sub) >= B:
                    left = tuple(rest[i] for i in range(n) if i not in idx)
                    best = max(best, 1 + rec(left))
        return best

    return rec(its)


# --------------------------------------------------------------------------- misc

def lpt_sums(items, k):
    """Longest-processing-time-first sums (ties to the lowest index), used where C08/C11 need the LPT value."""
    sums = [0] * k
    for v in sorted(items, reverse=True):
        i = min(range(k), key=sums.__getitem__)
        sums[i] += v
    return sums
