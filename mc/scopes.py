"""
The shared (configuration x input) scopes that several properties quantify over
("all inputs of C01/C03/C05").  Everything is a deterministic finite list.
"""
from itertools import product
from . import spaces

CG_OBJECTIVES = ("MinimizeDifference", "MinimizeLargestSum", "MaximizeSmallestSum")
CG_SWITCH_NAMES = ("use_lower_bound", "use_fast_lower_bound", "use_heuristic_3", "use_set_of_seen_states")
CG_SWITCHES = [dict(zip(CG_SWITCH_NAMES, bits)) for bits in product((True, False), repeat=4)]


def cg_configs(all_switches=True, k=None):
    """complete greedy: every objective x every combination of the four pruning switches,
    plus the k-sums objectives (default switches)."""
    out = []
    for o in CG_OBJECTIVES:
        for sw in (CG_SWITCHES if all_switches else CG_SWITCHES[:1] + CG_SWITCHES[-1:]):
            kw = {"objective": o}; kw.update(sw)
            out.append(kw)
    if k is not None:
        for j in sorted({1, 2, k}):
            out.append({"objective": f"MaximizeKSmallestSums({j})"})
            out.append({"objective": f"MinimizeKLargestSums({j})"})
    return out


def all_objectives(k):
    objs = list(CG_OBJECTIVES)
    for j in sorted({1, 2, k, k + 1}):
        objs.append(f"MaximizeKSmallestSums({j})")
        objs.append(f"MinimizeKLargestSums({j})")
    return objs


SIMPLE_PARTITIONERS = ("greedy", "roundrobin", "multifit", "kk")


def partition_algos_for(n, k, tier, maxval):
    """Which (algo, kw) configurations are explored for an input with n items, k bins.
    The restrictions are *cost* bounds of the harness, stated in evidence.bounds:
      ckk enumerates k! bin pairings per merge; dp with contents enumerates k**n labelled states;
      ilp is a MIP solve (~15 ms)."""
    thorough = tier == "thorough"
    cfgs = [(a, {}) for a in SIMPLE_PARTITIONERS]
    if k <= (6 if thorough else 5):
        cfgs.append(("ckk", {}))
    cfgs.append(("snp", {}))
    cfgs.append(("rnp", {}))
    if k ** n <= (20000 if thorough else 4100):
        cfgs.append(("dp", {}))
    if k == 2:
        cfgs.append(("cbldm", {}))
    return cfgs


PACK_ALGOS = ("ff", "ffd", "bf", "bfd", "bc")
COVER_ALGOS = ("decreasing", "twothirds", "threequarters")
OUTS = ("Sums", "LargestSum", "SmallestSum", "ExtremeSums", "SortedSums", "Difference", "BinCount",
        "Partition", "PartitionAndSumsTuple", "PartitionAndSums")


def dense_partition_points(V, N, K, nmin=1):
    """P-dense(V,N,K): all multisets of nmin..N values from 0..V  x  bin counts 1..K."""
    for ms in spaces.multisets(range(0, V + 1), nmin, N):
        for k in range(1, K + 1):
            yield ms, k


def chunk_multisets(alphabet, nmin, nmax, size):
    return list(spaces.chunked(spaces.multisets(alphabet, nmin, nmax), size))


# ---- extension scopes shared by several properties (all finite, all enumerated completely)
# magnitudes at which an int32 / float32 / relative tolerance would bite, still exact in float64 (totals < 2**53)
BIG_VALUES = (0, 1, 2 ** 24 + 1, 2 ** 31 + 1, 2 ** 32 + 3, 2 ** 40 + 5)
# many items over tiny alphabets: (alphabet, min items, max items quick, max items thorough)
LONG_THIN = [((1, 2), 9, 15, 24), ((1, 2, 3), 9, 12, 16), ((0, 1, 5), 9, 11, 13), ((2, 3, 7), 9, 11, 13)]


def long_thin_multisets(tier):
    for alpha, lo, hq, ht in LONG_THIN:
        for ms in spaces.multisets(alpha, lo, hq if tier == "quick" else ht):
            yield ms


def long_thin_bins(n):
    return sorted({2, 3, 4, 5, 7, n, n + 1})


def scramble(ms):
    """A fixed, non-sorted presentation of a multiset (sorted input hides a missing sort): riffle of the ascending order."""
    a = sorted(ms)
    return tuple(a[1::2] + a[0::2])


# ---- "every count" families: every number of bins / covered bins / requested bins up to M, not only small ones
def count_sweep_packing(tier):
    """-> (items, B, optimum number of bins): for EVERY m in 1..M, inputs that need exactly m bins (B=10: m items of 6, each
    forcing its own bin, plus fillers of 4 / 3 / 1 that fit beside them).  A batch size, a growth step or a threshold on the
    number of open bins (16, 32, 64, 100 ...) lies inside the range."""
    M = 40 if tier == "quick" else 140
    for m in range(1, M + 1):
        for fill in ((), (4,) * m, (4,) * (m // 2) + (3,) * (m // 3), (1,) * (2 * m)):
            yield (6,) * m + fill, 10, m


def count_sweep_cover(tier):
    """-> (items, B, optimum number of covered bins) for every m in 1..M: m exactly-full pairs (6,4) or triples (5,3,2), B=10."""
    M = 40 if tier == "quick" else 140
    for m in range(1, M + 1):
        yield (6, 4) * m, 10, m
        yield (5, 3, 2) * m, 10, m
        yield (10,) * m + (1,) * 9, 10, m


def count_sweep_partition(tier):
    """-> (items, k) for every requested number of bins k in 1..M with k-1, k, k+1 and 2k+1 items over {1,2,3}"""
    M = 24 if tier == "quick" else 70
    for k in range(1, M + 1):
        for n in sorted({max(1, k - 1), k, k + 1, 2 * k + 1}):
            yield tuple((3, 1, 2)[i % 3] for i in range(n)), k


def separating_instances():
    """the objective-separating instances listed by tools/gen_separating.py (complete enumeration of four (V, n, k) spaces,
    filtered by an oracle predicate): [(items tuple, k, flags)]"""
    import json, os
    p = os.path.join(os.path.dirname(os.path.abspath(__file__)), "data", "separating.json")
    d = json.load(open(p))
    return [(tuple(it), k, f) for it, k, f in d["instances"]], d["spaces"]


# ---- "large base + small offsets": magnitudes at which a relative tolerance (1e-5, 1e-9) swallows a difference of a few units
OFFSET_BASES = (10 ** 5, 10 ** 6, 2 ** 24, 10 ** 9)


def offset_letters(b):
    return (b // 2 + 7, b + 1, b + 5, b + 6, 2 * b + 1, 2 * b + 8)


def offset_multisets(nmin, nmax, bases=OFFSET_BASES):
    for b in bases:
        for ms in spaces.multisets(offset_letters(b), nmin, nmax):
            yield ms


# ---- cover / packing bin sizes with near-miss letters (integers next to B/3, B/2 and B; B-1 is reachable as a sum)
def threshold_letters(Bc):
    return (1, 2, Bc // 3, Bc // 3 + 1, Bc // 2 - 1, Bc // 2, Bc // 2 + 1, Bc, Bc + 1)


BIG_BINSIZES = (10 ** 6, 2 ** 32, 2 ** 32 + 2, 3 * 2 ** 31, 10 ** 10)
# exactly representable halves around B/2 and B for an odd and an even bin size
HALVES = {7: (0.5, 1.5, 2.5, 3, 3.5, 4.5, 6.5, 7), 10: (0.5, 2.5, 4.5, 5, 5.5, 7.5, 9.5, 10)}
