"""
C10 - bin-covering heuristics meet their approximation guarantees.
Engine E1; OPT from the exhaustive cover oracle, from planted exact covers and from the published worst-case families.
"""
from .. import repo, scopes, spaces, oracles as O
from ..runner import Acc
from ..judge import cfg_str, inp_str

ID = "C10"
ENGINE = "E1"
LEVEL = "model_checking"
RULE = ("all multisets of 1..N positive items over 1..B+3 and longer multisets over a short alphabet (so that OPT reaches 3..6), "
        "plus every planted cover (every multiset of m patterns, a pattern being a partition of B into letters that include the "
        "class thresholds B/2 and B/3: the total is exactly m*B, hence OPT = m) and the published worst-case families; "
        "oracle: 2n >= OPT-1 (decreasing), 3n >= 2(OPT-1) (two-thirds), 4n >= 3*OPT-16 (three-quarters), n <= OPT. "
        "A point is one (multiset, binsize); non-trivial = OPT >= 2 and some heuristic covers fewer than OPT bins.")
ASSUMPTIONS = ["positive integer items", "OPT oracle: DP over count vectors, cross-validated against recursive enumeration by ./check --selftest"]

PLANT = (12, (1, 2, 3, 4, 5, 6, 7, 8), 3)   # B, letters, maxparts
# the last two: large odd bin sizes whose letters are the integers next to the class thresholds B/2 and B/3 (and tiny items)
PLANT_BIG = [(12, (1, 2, 3, 4, 5, 6, 7)), (13, (1, 2, 3, 4, 5, 6, 7)), (9, (1, 2, 3, 4, 5)),
             (101, (1, 2, 16, 17, 33, 34, 50, 51, 67)), (99, (1, 2, 16, 17, 33, 49, 50, 66))]


def published():
    fam = []
    for k in (1, 2, 3, 4):
        fam.append((tuple([1000 - 6 * k] + 6 * k * [499] + 6 * k * [1]), 1000, 3 * k))
    fam.append((tuple([594, 594] + 12 * [399] + 12 * [1]), 1200, 4))
    fam.append((tuple([994, 501, 501, 499, 499, 499, 499] + 12 * [1]), 1000, 4))
    return fam


def bounds(tier):
    q = tier == "quick"
    return {"dense": f"values 1..B+3, 1..{6 if q else 8} items, B in (6,10,12)",
            "long": f"values 1..5 (B=6) and {{1,2,3,4,5,7}} (B=10), {7 if q else 9}..{10 if q else 13} items",
            "planted": f"B=12, letters {PLANT[1]}, patterns <= {PLANT[2]} parts, m=2..{8 if q else 13}",
            "planted-big": "B=12, 13, 9 (letters 1..7 / 1..5) and B=101, 99 (letters 1, 2 and the integers next to B/6, B/3, B/2, 2B/3); every unordered pair of patterns (<=4 parts) with multiplicities " + ("(64,0),(40,24),(100,20)" if q else "(64,0),(40,24),(100,20),(20,100),(150,150)") + ": OPT = 64..300 bins, up to ~1200 items",
            "big": "B in {1e6, 2**32, 2**32+2, 3*2**31, 1e10} with letters 1, 2, the integers next to B/3 and B/2, B, B+1; 1..5(6) items; exhaustive OPT",
            "fractional": "B=7.5 (items 1..10), B=10.5 (items 1..12), 1..5(6) items; exhaustive OPT",
            "published": "decreasing/two-thirds family k=1..4 (B=1000), the two three-quarters examples"}


def tasks(tier):
    q = tier == "quick"
    ts = []
    for B in (6, 10, 12):
        for ch in scopes.chunk_multisets(range(1, B + 4), 1, 6 if q else 8, 600):
            ts.append(("dense", [(ms, B, None) for ms in ch], None))
    for alpha, B in ((range(1, 6), 6), ((1, 2, 3, 4, 5, 7), 10)):
        for ch in scopes.chunk_multisets(alpha, 7 if q else 9, 10 if q else 13, 200):
            ts.append(("long", [(ms, B, None) for ms in ch], None))
    B, letters, mp = PLANT
    for m in (range(2, 9) if q else range(2, 13)):
        gen = ((it, B, m) for it, _ in spaces.planted(B, letters, m, maxparts=mp))
        for ch in spaces.chunked(gen, 300):
            ts.append(("planted", ch, None))
    # large planted covers (OPT = m exactly-full bins, m in the tens and hundreds, where 3/4*OPT-4 separates 3/4 from 2/3):
    # every unordered pair of patterns x a grid of multiplicities, for an even and two odd bin sizes
    for Bb, lettersb in PLANT_BIG:
        pats = spaces.partitions_of(Bb, lettersb, 4)
        big = []
        for i, p in enumerate(pats):
            for r in pats[i:]:
                for a, b in (((64, 0), (40, 24), (100, 20)) if q else ((64, 0), (40, 24), (100, 20), (20, 100), (150, 150))):
                    if b == 0 and r is not p:
                        continue
                    big.append((tuple(sorted(p * a + r * b, reverse=True)), Bb, a + b))
        for ch in spaces.chunked(big, 40):
            ts.append(("planted-big", ch, None))
    for ch in spaces.chunked(scopes.count_sweep_cover(tier), 30):
        ts.append(("count-sweep", ch, None))
    # near-miss sums at large magnitudes (B-1 is reachable as a sum: a tolerance or a narrower number type over-reports)
    for Bc in scopes.BIG_BINSIZES:
        for ch in scopes.chunk_multisets(scopes.threshold_letters(Bc), 1, 5 if q else 7, 300):
            ts.append(("big", [(ms, Bc, None) for ms in ch], None))
    for Bf, top in ((7.5, 10), (10.5, 12)):
        for ch in scopes.chunk_multisets(range(1, top + 1), 1, 5 if q else 7, 300):
            ts.append(("fractional", [(ms, Bf, None) for ms in ch], None))
    ts.append(("published", published(), None))
    return ts


def _judge(acc, items, B, opt):
    res = {}
    for algo in scopes.COVER_ALGOS:
        case = {"algo": algo, "items": list(items), "B": B, "out": "BinCount", "opt": opt}
        obs = repo.call(case)
        acc.ran(algo)
        if obs[0] == "exc":
            acc.violation(algo, cfg_str(case), inp_str(case), "raises", "a count", obs[1:], case); continue
        n = obs[1]
        res[algo] = n
        if n > opt:
            acc.violation(algo, cfg_str(case), inp_str(case), "more_than_optimum", f"<= {opt}", n, case)
        ok = {"decreasing": 2 * n >= opt - 1, "twothirds": 3 * n >= 2 * (opt - 1), "threequarters": 4 * n >= 3 * opt - 16}[algo]
        if not ok:
            acc.violation(algo, cfg_str(case), inp_str(case), "approximation_bound",
                          {"decreasing": "(OPT-1)/2", "twothirds": "2/3*(OPT-1)", "threequarters": "3/4*OPT-4"}[algo] + f" with OPT={opt}", n, case)
        acc.check()
        acc.outcome((algo, opt - n))
    return res


def run_task(task):
    scope, chunk, _ = task
    acc = Acc(ID, scope)
    for items, B, opt in chunk:
        if opt is None:
            opt = O.opt_cover(items, B)
        res = _judge(acc, items, B, opt)
        acc.point(nontrivial=(opt >= 2 and any(v < opt for v in res.values())))
        if (items, B, opt) == tuple(chunk[0]) or items is chunk[0][0]:
            acc.sample({"items": list(items) if len(items) < 40 else f"{len(items)} items", "binsize": B, "OPT": opt, "covered": res, "scope": scope})
    return acc


def replay(case, acc):
    _judge(acc, case["items"], case["B"], case["opt"])
