"""
C16 - bins-manager operations keep sums and contents consistent, copies independent.
Engine E2: explicit-state breadth-first search over operation histories on a pool of live arrays, with a reference
model stepped in lock-step and canonical-state de-duplication (DESIGN.md section 2, E2).
"""
import numpy as np
from collections import Counter
from .. import repo
from ..runner import Acc

ID = "C16"
ENGINE = "E2"
LEVEL = "model_checking"
RULE = ("breadth-first search over ALL sequences of documented bins-manager operations (new, add item incl. index -1, copy, sort, "
        "add empty bins, remove bins, concatenate, combine) up to a depth bound on a pool of at most A live arrays of at most Bmax "
        "bins, items {a:1, b:2, z:0}, for both managers; the hand-over discipline (arguments of add-empty/remove/concatenate leave "
        "the pool) is part of the transition relation. Every transition is executed on real objects rebuilt by replaying the history "
        "and on a reference model (lists of item names; sums recomputed); all observables of all live arrays are compared after every "
        "transition, arguments documented as unmodified are compared before/after the call. states = distinct canonical states "
        "(model pool + aliasing signature), transitions = real operations executed as BFS edges, traces_validated_against_impl = "
        "transitions whose full observable state was compared with the model. Non-trivial states = pools with at least two live arrays "
        "or an array with two non-empty bins.")
ASSUMPTIONS = ["hand-over discipline as stated in the property; concatenate / combine get two distinct arrays",
               "the reference model (mc/props/c16.py: model_apply) is the trusted base"]

VAL = {"a": 1, "b": 2, "z": 0}
VAL_BIG = {"a": 1, "b": 2 ** 24 + 1, "z": 0}       # a magnitude at which a narrower number type in the sums would round
ITEMS = ("a", "b", "z")
EXPLORER_STATS = None
# kinds: "<manager>" | "<manager>+records" | "<manager>+big"
#   +records: every added item is a freshly built (name, value) record and valueof reads the record - short-lived item objects
#   +big:     item b is worth 2**24+1
KINDS = ("sums", "contents", "sums+records", "contents+records", "sums+big", "contents+big")
_CUR = [VAL]


def base(kind):
    return kind.split("+")[0]


def _set_kind(kind):
    _CUR[0] = VAL_BIG if kind.endswith("+big") else VAL


def bounds(tier):
    A, Bmax, D = PARAMS[tier]
    A2, B2, D2 = PARAMS2[tier]
    return {"live arrays": A, "bins per array": Bmax, "depth": D, "items": VAL, "managers": ["BinnerKeepingSums", "BinnerKeepingContents"],
            "bulk growth": "1..100 empty bins added at once to arrays of 0, 1, 3, 10 bins, then add / add-empty / remove / add-empty again, every step against the model",
            "wide arrays": f"arrays of {list(WIDE_SIZES[tier])} bins filled by additions to every rotation / reversal / neighbour 3-cycle / riffle / tie pattern of sums, then sort, copy, add, remove, add-empty in short combinations, every step against the model",
            "variants": f"items as freshly built (name, value) records, and item b worth 2**24+1: {A2} live arrays, {B2} bins, depth {D2}"}


PARAMS = {"quick": (2, 3, 6), "thorough": (3, 3, 7)}
PARAMS2 = {"quick": (2, 2, 5), "thorough": (2, 3, 6)}


# ------------------------------------------------------------------ model

def enabled(pool, A, Bmax):
    ops = []
    if len(pool) < A:
        for n in range(0, Bmax + 1):
            ops.append(("new", n))
        for i in range(len(pool)):
            ops.append(("copy", i))
    for i, arr in enumerate(pool):
        nb = len(arr)
        for item in ITEMS:
            for idx in list(range(nb)) + ([-1] if nb > 0 else []):
                ops.append(("add", i, item, idx))
        ops.append(("sort", i))
        for n in (1, 2):
            if nb + n <= Bmax:
                ops.append(("add_empty", i, n))
        for n in range(0, nb + 1):
            ops.append(("remove", i, n))
        for j in range(len(pool)):
            if j != i:
                if nb + len(pool[j]) <= Bmax:
                    ops.append(("concat", i, j))
                for bi in range(nb):
                    for bj in range(len(pool[j])):
                        ops.append(("combine", i, bi, j, bj))
    return ops


def model_apply(pool, op):
    """pool: list of arrays; array: list of bins; bin: list of names.  Returns the new pool (fresh lists).
    `sort` is resolved by the caller (see _step) because its order among equal sums is the implementation's choice."""
    pool = [[list(b) for b in arr] for arr in pool]
    kind = op[0]
    if kind == "new":
        pool.append([[] for _ in range(op[1])])
    elif kind == "copy":
        pool.append([list(b) for b in pool[op[1]]])
    elif kind == "add":
        _, i, item, idx = op
        pool[i][idx].append(item)
    elif kind == "add_empty":
        _, i, n = op
        arr = pool.pop(i)
        pool.append(arr + [[] for _ in range(n)])
    elif kind == "remove":
        _, i, n = op
        arr = pool.pop(i)
        pool.append(arr[:len(arr) - n])
    elif kind == "concat":
        _, i, j = op
        a, b = pool[i], pool[j]
        pool = [x for t, x in enumerate(pool) if t not in (i, j)]
        pool.append(a + b)
    elif kind == "combine":
        _, i, bi, j, bj = op
        pool[i][bi] = pool[i][bi] + pool[j][bj]
    elif kind == "sort":
        raise AssertionError("resolved by caller")
    return pool


def msum(b):
    return float(sum(_CUR[0][x] for x in b))


# ------------------------------------------------------------------ real side

def make_binner(kind):
    cls = repo.prtpy.BinnerKeepingContents if base(kind) == "contents" else repo.prtpy.BinnerKeepingSums
    if kind.endswith("+records"):
        return cls(lambda rec: rec[1])
    return cls(_CUR[0].__getitem__)


def real_apply(binner, pool, op):
    """applies op to the real pool in place (list of live arrays); returns (argument snapshots to compare, return value)"""
    kind = op[0]
    if kind == "new":
        pool.append(binner.new_bins(op[1])); return
    if kind == "copy":
        pool.append(binner.copy_bins(pool[op[1]])); return
    if kind == "add":
        _, i, item, idx = op
        if _RECORDS[0]:
            item = tuple([item, _CUR[0][item]])        # a new record object for every addition
        r = binner.add_item_to_bin(pool[i], item, idx)
        return ("add_return", r, pool[i])
    if kind == "sort":
        binner.sort_by_ascending_sum(pool[op[1]]); return
    if kind == "add_empty":
        _, i, n = op
        arr = pool[i]
        res = binner.add_empty_bins(arr, n)
        pool.pop(i); pool.append(res); return
    if kind == "remove":
        _, i, n = op
        arr = pool[i]
        res = binner.remove_bins(arr, n)
        pool.pop(i); pool.append(res); return
    if kind == "concat":
        _, i, j = op
        res = binner.concatenate_bins(pool[i], pool[j])
        for t in sorted((i, j), reverse=True):
            pool.pop(t)
        pool.append(res); return
    if kind == "combine":
        _, i, bi, j, bj = op
        binner.combine_bins(pool[i], bi, pool[j], bj); return
    raise ValueError(op)


_RECORDS = [False]


def observe(binner, kind, arr):
    """everything observable of one real array -> plain python"""
    o = {"sums": tuple(float(v) for v in binner.sums(arr)), "numbins": int(binner.numbins(arr))}
    rec = kind.endswith("+records")
    kind = base(kind)
    if kind == "contents":
        o["lists"] = tuple(tuple((x[0] if rec else x) for x in b) for b in arr[1])
        o["numitems"] = tuple(binner.numitems(arr, i) for i in range(o["numbins"]))
    else:
        try:
            r = binner.numitems(arr, 0)
            o["numitems"] = ("returned", r)
        except Exception as e:
            o["numitems"] = "raises"
    return o


def expected(kind, marr):
    kind = base(kind)
    o = {"sums": tuple(msum(b) for b in marr), "numbins": len(marr)}
    if kind == "contents":
        o["lists"] = tuple(tuple(b) for b in marr)
        o["numitems"] = tuple(len(b) for b in marr)
    else:
        o["numitems"] = "raises"
    return o


def sums_array(kind, arr):
    return arr[0] if base(kind) == "contents" else arr


def alias_signature(kind, pool):
    """sharing structure among LIVE arrays (part of the canonical state; see DESIGN E2 correctness argument)"""
    sig = []
    arrs = [sums_array(kind, a) for a in pool]
    for i, a in enumerate(arrs):
        sig.append(("own", i, bool(getattr(a, "flags", None) is not None and a.flags.owndata)))
    for i in range(len(arrs)):
        for j in range(i + 1, len(arrs)):
            if isinstance(arrs[i], np.ndarray) and isinstance(arrs[j], np.ndarray) and np.shares_memory(arrs[i], arrs[j]):
                sig.append(("mem", i, j))
    if base(kind) == "contents":
        inner = {}
        for i, a in enumerate(pool):
            for b, lst in enumerate(a[1]):
                inner.setdefault(id(lst), []).append((i, b))
        for v in inner.values():
            if len(v) > 1:
                sig.append(("list", tuple(v)))
        outer = {}
        for i, a in enumerate(pool):
            outer.setdefault(id(a[1]), []).append(i)
        for v in outer.values():
            if len(v) > 1:
                sig.append(("outer", tuple(v)))
    return tuple(sorted(sig, key=repr))


def rebuild(kind, history):
    """fresh binner, history replayed on real objects and on the model (sort order adopted from the implementation)"""
    _set_kind(kind); _RECORDS[0] = kind.endswith("+records")
    binner = make_binner(kind)
    real, model = [], []
    for op in history:
        model = _model_step(binner, kind, real, model, op, check=None)
    return binner, real, model


def _model_step(binner, kind, real, model, op, check):
    """apply op to real (in place) and model; returns new model.  `check` (an Acc + context) enables the comparisons."""
    if check is not None:
        acc, hist = check
    ret = real_apply(binner, real, op)
    if op[0] == "sort":
        i = op[1]
        obs = observe(binner, kind, real[i])
        old = model[i]
        new_model = [[list(b) for b in arr] for arr in model]
        if base(kind) == "contents":
            # a permutation of the (sum, contents) pairs, in non-decreasing sum order; order among equal sums = implementation's
            want = Counter((msum(b), tuple(b)) for b in old)
            got = Counter(zip(obs["sums"], obs["lists"]))
            ok = want == got and all(obs["sums"][t] <= obs["sums"][t + 1] for t in range(len(obs["sums"]) - 1))
            if ok:
                new_model[i] = [list(b) for b in obs["lists"]]
            elif check is not None:
                acc.violation("BinnerKeepingContents", "sort", _h(hist + [op]), "sort_not_a_sorted_permutation",
                              sorted(want.elements()), list(zip(obs["sums"], obs["lists"])), {"kind": kind, "history": hist + [op]})
                new_model[i] = sorted(old, key=msum)
            else:
                new_model[i] = sorted(old, key=msum)
        else:
            new_model[i] = sorted(old, key=msum)
        model = new_model
    else:
        model = model_apply(model, op)
    if check is not None:
        acc.ran(op[0]); acc.check()
        ctx = {"kind": kind, "history": hist + [op]}
        name = ("BinnerKeepingContents" if base(kind) == "contents" else "BinnerKeepingSums") + kind[len(base(kind)):]
        # 2. every live array equals the model
        if len(real) != len(model):
            acc.violation(name, op[0], _h(hist + [op]), "pool_size", len(model), len(real), ctx)
        for t in range(min(len(real), len(model))):
            try:
                o = observe(binner, kind, real[t])
            except Exception as e:
                acc.violation(name, op[0], _h(hist + [op]), "observer_raises", expected(kind, model[t]), f"{type(e).__name__}: {e}", ctx); continue
            e_ = expected(kind, model[t])
            if o != e_:
                diff = [k for k in e_ if o.get(k) != e_[k]]
                acc.violation(name, op[0], _h(hist + [op]), "state_differs_from_model:" + ",".join(diff),
                              {k: e_[k] for k in diff}, {k: o.get(k) for k in diff}, ctx)
        # 3. return-value convention of add
        if ret is not None and ret[0] == "add_return":
            r = ret[1]
            try:
                same = observe(binner, kind, r) == observe(binner, kind, ret[2])
            except Exception:
                same = False
            if not same:
                acc.violation(name, op[0], _h(hist + [op]), "add_does_not_return_updated_array", "the array after the addition", repr(r)[:100], ctx)
    return model


def _h(hist):
    return " ; ".join("(" + ",".join(map(str, op)) + ")" for op in hist)


def _step_checked(acc, kind, history, op):
    """replay history, then apply `op` with argument-preservation and model comparison"""
    binner, real, model = rebuild(kind, history)
    name = ("BinnerKeepingContents" if base(kind) == "contents" else "BinnerKeepingSums") + kind[len(base(kind)):]
    # handles + snapshots of arguments that the documentation says are not modified by the call itself
    k0 = op[0]
    argidx = ([op[1]] if k0 in ("add_empty", "remove", "copy") else [op[1], op[2]] if k0 == "concat" else [op[3]] if k0 == "combine" else [])
    handles = [real[i] for i in argidx]
    snaps = [observe(binner, kind, h) for h in handles]
    others = [(i, real[i], observe(binner, kind, real[i])) for i in range(len(real))
              if i not in argidx and not (op[0] in ("add", "sort", "combine") and i == op[1])]
    try:
        model2 = _model_step(binner, kind, real, model, op, check=(acc, list(history)))
    except Exception as e:
        acc.ran(op[0])
        acc.violation(name, op[0], _h(list(history) + [op]), "operation_raises", "documented effect", f"{type(e).__name__}: {e}",
                      {"kind": kind, "history": list(history) + [op]})
        return None
    ctx = {"kind": kind, "history": list(history) + [op]}
    for h, s in zip(handles, snaps):
        try:
            now = observe(binner, kind, h)
        except Exception as e:
            now = f"{type(e).__name__}"
        if now != s:
            acc.violation(name, op[0], _h(list(history) + [op]), "argument_modified_by_call", s, now, ctx)
    for i, h, s in others:   # untouched live arrays must not change either (independence of copies, both directions)
        try:
            now = observe(binner, kind, h)
        except Exception as e:
            now = f"{type(e).__name__}"
        if now != s:
            acc.violation(name, op[0], _h(list(history) + [op]), "unrelated_array_changed", s, now, ctx)
    key = (tuple(tuple(tuple(b) for b in arr) for arr in model2) if base(kind) == "contents"
           else tuple(tuple(msum(b) for b in arr) for arr in model2), alias_signature(kind, real))
    return key, model2


# ------------------------------------------------------------------ BFS

def expand(arg):
    """worker: expands a batch of frontier states.  arg = (kind, A, Bmax, [(history)])"""
    kind, A, Bmax, batch = arg
    acc = Acc(ID, f"{kind}")
    out = []
    for history in batch:
        _, _, model = rebuild(kind, history)
        for op in enabled(model, A, Bmax):
            r = _step_checked(acc, kind, history, op)
            if r is None:
                continue
            key, model2 = r
            acc.outcome(key)
            out.append((key, tuple(history) + (op,)))
    res = acc.result()
    res["succ"] = out
    return res


# ------------------------------------------------------------------ wide arrays (many bins)

WIDE_SIZES = {"quick": (4, 8, 9, 10, 12, 17), "thorough": (4, 7, 8, 9, 10, 11, 12, 15, 16, 17, 20, 32, 33)}


def _wide_patterns(nb):
    """sum patterns for an array of nb bins: every rotation of 1..nb, the reversal, every 3-cycle of neighbours, two riffles,
    and a pattern with ties (equal sums, different contents arise from the item mix)"""
    base = list(range(1, nb + 1))
    pats = [base[r:] + base[:r] for r in range(nb)]
    pats.append(base[::-1])
    for i in range(nb - 2):
        p = list(base); p[i], p[i + 1], p[i + 2] = base[i + 2], base[i], base[i + 1]; pats.append(p)
    pats.append(base[1::2] + base[0::2]); pats.append(base[0::2][::-1] + base[1::2])
    pats.append([(i * 7) % 5 + 1 for i in range(nb)])
    pats.append([3 if i % 2 else 4 for i in range(nb)])
    seen, out = set(), []
    for p in pats:
        if tuple(p) not in seen:
            seen.add(tuple(p)); out.append(p)
    return out


def wide(arg):
    """worker: arrays of many bins built by additions, then every single follow-up operation, all checked against the model"""
    kind, nb = arg
    acc = Acc(ID, "wide-" + kind)
    for pat in _wide_patterns(nb):
        hist = [("new", nb)]
        for i, s in enumerate(pat):
            # bin i reaches the sum s with a mix of items that differs from bin to bin (b=2, a=1, z=0)
            n_b = (s // 2) if i % 2 == 0 else max(0, s // 2 - 1)
            n_a = s - 2 * n_b
            hist += [("add", 0, "b", i)] * n_b + [("add", 0, "a", i)] * n_a + ([("add", 0, "z", i)] if i % 3 == 0 else [])
        acc.point(nontrivial=True)
        for tail in ([("sort", 0)], [("copy", 0)], [("sort", 0), ("add", 0, "b", 0)], [("sort", 0), ("sort", 0)], [("sort", 0), ("remove", 0, 1)],
                     [("sort", 0), ("add_empty", 0, 1)], [("copy", 0), ("sort", 1)], [("copy", 0), ("sort", 0)], [("sort", 0), ("copy", 0), ("add", 1, "a", nb - 1)]):
            h = list(hist)
            for op in tail:
                r = _step_checked(acc, kind, h, op)
                h.append(op)
                if r is None:
                    break
    # many empty bins added at once to a small array (a growth policy that doubles, or grows in fixed blocks, must still
    # deliver the requested number), then the last bin is used
    if nb == WIDE_SIZES["quick"][0]:
        for nb0 in (0, 1, 3, 10):
            for n in (1, 2, 13, 14, 20, 30, 40, 100):
                h = [("new", nb0)] + [("add", 0, "a", i) for i in range(nb0)]
                for op in [("add_empty", 0, n), ("add", 0, "b", nb0 + n - 1), ("add_empty", 0, 1), ("remove", 0, n), ("add_empty", 0, n + 3), ("add", 0, "a", -1)]:
                    r = _step_checked(acc, kind, h, op)
                    h.append(op)
                    if r is None:
                        break
                acc.point(nontrivial=True)
    acc.sample({"manager": kind, "bins": nb, "patterns": len(_wide_patterns(nb))})
    return acc.result()


def explore(tier, seed, pmap):
    global EXPLORER_STATS
    stats = {}
    for kind in KINDS:
        A, Bmax, D = PARAMS[tier] if "+" not in kind else PARAMS2[tier]
        _set_kind(kind)
        seen = {((), ())}
        frontier = [()]
        per_depth = []
        total_states = 1; nontrivial = 0; aliased = 0
        for depth in range(1, D + 1):
            if not frontier:
                break
            nb = max(1, min(len(frontier), 64))
            size = -(-len(frontier) // nb)
            batches = [(kind, A, Bmax, frontier[i:i + size]) for i in range(0, len(frontier), size)]
            if seed:
                r = seed % len(batches); batches = batches[r:] + batches[:r]
            results = pmap("expand", batches)
            nxt = []
            cands = []
            for res in results:
                if "harness_error" in res:
                    yield res; continue
                cands.extend(res.pop("succ"))
                res["states"] = 0
                yield res
            cands.sort(key=lambda kh: (repr(kh[0]), repr(kh[1])))    # deterministic representative per state
            for key, hist in cands:
                if key not in seen:
                    seen.add(key)
                    nxt.append(hist)
                    total_states += 1
                    pool = key[0]
                    if len(pool) >= 2 or any(sum(1 for b in arr if (b if base(kind) == "contents" else b != 0.0)) >= 2 for arr in pool):
                        nontrivial += 1
                    if any(s[0] != "own" or s[2] is False for s in key[1]):
                        aliased += 1
            per_depth.append(len(nxt))
            frontier = nxt
        acc = Acc(ID, f"{kind}")
        acc.states = total_states; acc.nontrivial = nontrivial
        acc.sample({"manager": kind, "a deepest history": _h(list(frontier[0])) if frontier else "<frontier empty>"})
        stats[kind] = {"states": total_states, "new_states_per_depth": per_depth, "max_depth": len(per_depth),
                       "states_with_nontrivial_aliasing_signature": aliased, "frontier_exhausted": not frontier}
        yield acc.result()
    for res in pmap("wide", [(kind, nb) for kind in ("sums", "contents") for nb in WIDE_SIZES[tier]]):
        yield res
    stats["wide arrays"] = {"bins": list(WIDE_SIZES[tier]), "patterns per size": {nb: len(_wide_patterns(nb)) for nb in WIDE_SIZES[tier]}}
    EXPLORER_STATS = stats


def replay(case, acc):
    hist = [tuple(op) for op in case["history"]]
    _step_checked(acc, case["kind"], hist[:-1], hist[-1])


def repro(v):
    c = v.get("case") or {}
    return f"# replay with: ./check C16 --replay <this file>; manager={c.get('kind')}; history={c.get('history')}"
