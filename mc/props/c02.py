"""
C02 - exact partitioners attain the true optimum of their objective.
Engine E1; oracle = exhaustive optimum over all set partitions (mc.oracles.opt_partition).
"""
from .. import repo, scopes, spaces, oracles as O
from ..runner import Acc
from ..judge import cfg_str, inp_str

ID = "C02"
ENGINE = "E1"
LEVEL = "model_checking"
RULE = ("every multiset of 1..N values from an alphabet x every bin count 1..K x every exact algorithm x every objective it "
        "supports x all 16 complete-greedy switch combinations; oracle: objective value recomputed from the returned sums by "
        "the oracle's own definitions equals the minimum over ALL set partitions (restricted-growth enumeration). "
        "A point is one (input, numbins); non-trivial = the optimum of the difference objective is strictly better than "
        "the LPT value (a search had to improve on greedy).")
ASSUMPTIONS = ["integer values, totals far below 2^53", "ILP: CBC as shipped; a disagreement is re-solved with preprocessing off and only counted as violation if it persists",
               "ckk limited to k<=5, dp to k**n<=4100 (quick) / 20000 (thorough): harness cost bounds",
               "pruning defects that need more than the enumerated sizes to show are not covered"]

WIDE = {"wide": tuple(range(1, 11)), "fib": (1, 2, 3, 5, 8, 13, 21), "near": (8, 9, 10, 11, 12, 13), "pow2": (1, 2, 4, 8, 16, 32)}


SPREAD9 = (3, 7, 12, 19, 28, 41, 57, 77, 97)
PRIMES10 = (11, 13, 17, 19, 23, 29, 31, 37, 41, 43)
SEP_TEXT = ("the 1091 objective-separating instances found by complete enumeration of all multisets of 6 items over 1..24 (k=3), 7 over 1..20 (k=3), "
            "7 over 1..16 (k=4), 8 over 1..14 (k=3) (tools/gen_separating.py): ckk/snp/rnp, dp x 3 objectives x both output families, cg x 3 objectives x {all switches on, all off}; thorough: cg x 48, ilp x 3")


def bounds(tier):
    if tier == "quick":
        return {"dense": "values 0..5, 1..7 items, 1..6 bins (cg: all 48 configs; dp/ckk within cost bounds)",
                "wide": "values 1..10, exactly 7 items, k=4..5 for ckk/snp/rnp/cg(default switches)",
                "nine": "values 1..5, exactly 9 items, k=4..5 for rnp/snp (smallest scope on which rnp's even-case defect showed)",
                "ilp": "values 0..4, 1..5 items, 1..4 bins, 3 objectives + k-sums objectives",
                "long-thin": "9..15 items over {1,2}, 9..12 over {1,2,3}, 9..11 over {0,1,5} and {2,3,7}; k in {2,3,4,5,7}; cg x 3 objectives x {default, fast bound off}; ckk/rnp (n<=12, k<=4), snp (n<=12, k<=3); optimum from the sum-vector DP",
                "offset": "letters {b/2+7, b+1, b+5, b+6, 2b+1, 2b+8} for b in {1e5, 1e6, 2**24, 1e9}, 3..5 items, k=2..3: ckk/snp/rnp/dp (all objectives, both output families), cg x 3 objectives x {all switches on, all off}",
                "spread (quick)": "5..6 items over fibonacci and powers of two, k=3..4",
                "named": "values 0..5, 2..5 items, k=2..3, dict with integer names: all exact algorithms and all cg configurations",
                "separating": SEP_TEXT,
                "spread9": "all 24 310 multisets of 9 items over (3,7,12,19,28,41,57,77,97), k=4: rnp",
                "eight": "all 43 758 multisets of 8 items over 1..11 with rnp at k=4; all 12 870 multisets of 8 items over 4..12 with rnp at k=5",
                "big": "values {0, 1, 2**24+1, 2**31+1, 2**32+3, 2**40+5}, 2..5 items, k=2..4: ckk/snp/rnp/dp (all objectives); cg 48 configurations k=2..3"}
    return {"dense": "values 0..7, 1..8 items, 1..6 bins",
            "wide": "values 1..10 (7 items), fibonacci/near-equal/powers-of-two alphabets (6..8 items), k=2..5",
            "nine": "values 1..5, 9..10 items, k=4..5 for rnp/snp",
            "ilp": "values 0..5, 1..6 items, 1..4 bins + spread alphabet {7,19,53,101,199} 1..4 items",
            "long-thin": "9..24 items over {1,2}, 9..16 over {1,2,3}, 9..13 over {0,1,5} and {2,3,7}; k in {2,3,4,5,7}; cg x 3 objectives x {default, fast bound off}; ckk/rnp (n<=12, k<=4), snp (n<=12, k<=3); ilp at n in {9,12}, k<=3; optimum from the sum-vector DP",
            "offset": "letters {b/2+7, b+1, b+5, b+6, 2b+1, 2b+8} for b in {1e5, 1e6, 2**24, 1e9}, 3..6 items, k=2..3: ckk/snp/rnp/dp (all objectives, both output families), cg x 3 objectives x {all switches on, all off}",
            "named": "values 0..5, 2..5 items, k=2..3, dict with integer names: all exact algorithms and all cg configurations",
            "separating": SEP_TEXT,
            "spread9": "all multisets of 9 items over (3,7,12,19,28,41,57,77,97) and over the primes 11..43, k=4: rnp and ckk",
            "eight": "all 75 582 multisets of 8 items over 1..12 with rnp at k=4 and at k=5",
            "big": "values {0, 1, 2**24+1, 2**31+1, 2**32+3, 2**40+5}, 2..6 items, k=2..4: ckk/snp/rnp/dp (all objectives); cg 48 configurations k=2..3"}


def tasks(tier):
    q = tier == "quick"
    ts = []
    V, N, K = (5, 7, 6) if q else (7, 8, 6)
    for ch in scopes.chunk_multisets(range(0, V + 1), 1, N, 50 if q else 60):
        ts.append(("dense-exact", ch, tuple(range(1, K + 1)), tier))
        ts.append(("dense-cg", ch, tuple(range(1, K + 1)), tier))
    if q:
        for ch in scopes.chunk_multisets(WIDE["wide"], 7, 7, 120):
            ts.append(("wide-exact", ch, (4, 5), tier))
    else:
        for ch in scopes.chunk_multisets(WIDE["wide"], 7, 7, 100):
            ts.append(("wide-exact", ch, (2, 3, 4, 5), tier))
            ts.append(("wide-cg", ch, (2, 3, 4, 5), tier))
        for name in ("fib", "near", "pow2"):
            for ch in scopes.chunk_multisets(WIDE[name], 6, 8, 60):
                ts.append((f"{name}-exact", ch, (2, 3, 4, 5), tier))
    for n in ((9,) if q else (9, 10)):
        for ch in scopes.chunk_multisets(range(1, 6), n, n, 40):
            ts.append(("nine-rnp", ch, (4, 5), tier))
    # many items over tiny alphabets (optimum from the sum-vector DP) and magnitudes beyond 2**24 / 2**31 / 2**32
    for ch in spaces.chunked(scopes.long_thin_multisets(tier), 12):
        ts.append(("long-thin", ch, None, tier))
    for ch in scopes.chunk_multisets(scopes.BIG_VALUES, 2, 5 if q else 6, 30):
        ts.append(("big-exact", ch, (2, 3, 4), tier))
        ts.append(("big-cg", ch, (2, 3), tier))
    # large base + small offsets (a relative tolerance in a prune or an early stop would swallow the last few units)
    for ch in spaces.chunked(scopes.offset_multisets(3, 5 if q else 6), 40):
        ts.append(("offset-exact", ch, (2, 3), tier))
        ts.append(("offset-cg", ch, (2, 3), tier))
    # values spread over two orders of magnitude (few items, fine-grained sums)
    for name in ("fib", "pow2"):
        for ch in scopes.chunk_multisets(WIDE[name], 5, 6, 60):
            ts.append((f"{name}q-exact", ch, (3, 4), tier))
    # objective-separating instances (no difference-optimal partition is optimal for the largest / smallest sum, or all of them
    # exceed LPT's maximum): a rule that is sound for one objective and applied to another can only fail here
    sep, _ = scopes.separating_instances()
    for ch in spaces.chunked(sep, 12):
        ts.append(("separating", ch, None, tier))
    # nine items with values spread over 3..97 (roughly quadratic steps): the recursive searches make several improvements and
    # most optimal partitions have few routes through the top-level splits; optimum from the sum-vector DP
    for ch in scopes.chunk_multisets(SPREAD9, 9, 9, 60):
        ts.append(("spread9", ch, (4,), tier))
    if not q:
        for ch in scopes.chunk_multisets(PRIMES10, 9, 9, 60):
            ts.append(("spread9", ch, (4,), tier))
    # eight items over 1..11 / 1..12: the smallest scope on which a top-level split of rnp's even case that is lost because
    # another split has the same *sums* (different contents) costs optimality (4 of 43 758 at k=4), and on which rnp's nested
    # 4-way level under the odd case (k=5) is not optimal on the pinned tree (3 of 75 582: known finding, listed by input)
    for ch in scopes.chunk_multisets(range(1, 12 if q else 13), 8, 8, 150):
        ts.append(("eight", ch, (4,), tier))
    for ch in scopes.chunk_multisets(range(4 if q else 1, 13), 8, 8, 150):
        ts.append(("eight", ch, (5,), tier))
    # named items whose names are integers larger than, and anti-correlated with, the values
    for ch in scopes.chunk_multisets(range(0, 6), 2, 5, 40):
        ts.append(("named-cg", ch, (2, 3), tier))
        ts.append(("named-exact", ch, (2, 3), tier))
    Vi, Ni, Ki = (4, 5, 4) if q else (5, 6, 4)
    for ch in scopes.chunk_multisets(range(0, Vi + 1), 1, Ni, 6 if q else 8):
        ts.append(("ilp", ch, tuple(range(1, Ki + 1)), tier))
    if not q:
        for ch in scopes.chunk_multisets((7, 19, 53, 101, 199), 1, 4, 6):
            ts.append(("ilp", ch, (2, 3, 4), tier))
    return ts


def _judge(acc, case, spec, dp=False):
    algo = case["algo"]
    obs = repo.call(case)
    acc.ran(algo)
    if obs[0] == "exc":
        acc.violation(algo, cfg_str(case), inp_str(case), "raises", "optimal sums", f"{obs[1]}: {obs[2]}", case)
        return
    sums = obs[1]
    if sums is not None and case.get("out") == "PartitionAndSumsTuple":
        sums = sums[0]
    if sums is None or len(sums) != case["k"] or sum(sums) != sum(case["items"]):
        acc.violation(algo, cfg_str(case), inp_str(case), "not_a_partition", f"{case['k']} sums totalling {sum(case['items'])}", sums, case)
        return
    got = O.objective_value(spec, sums)
    want = O.optimum_value(spec, tuple(case["items"]), case["k"], dp=dp or bool(case.get("dp_oracle")))
    acc.check()
    acc.outcome((algo, spec, got - want))
    if got != want:
        if algo == "ilp":
            # solver seam: tell a CBC preprocessing inconsistency from a prtpy defect
            obs2 = repo.call_ilp_no_preprocess(case)
            acc.ran("ilp")
            if obs2[0] == "ok" and obs2[1] is not None and O.objective_value(spec, obs2[1]) == want:
                acc.note("solver_inconsistencies"); return
        acc.violation(algo, cfg_str(case), inp_str(case), "suboptimal", f"{spec} optimum {want}", f"value {got}, sums {sums}", case)


def _long_thin(acc, chunk, tier):
    """9..24 items over 2-3 letters: complete greedy (default switches and fast bound off) for its three objectives at
    k in {2,3,4,5,7}; ckk / snp / rnp where a run stays in the millisecond range (n <= 12; snp k <= 3); ilp on a thin slice"""
    for ms in chunk:
        n = len(ms)
        items = list(scopes.scramble(ms))
        for k in (2, 3, 4, 5, 7):
            opt = O.opt_partition_dp(tuple(sorted(ms, reverse=True)), k)
            lpt = O.lpt_sums(ms, k)
            acc.point(nontrivial=(max(lpt) - min(lpt) != opt["diff"]))
            for spec in scopes.CG_OBJECTIVES:
                for sw in ({}, {"use_fast_lower_bound": False}):
                    _judge(acc, {"algo": "cg", "items": items, "k": k, "out": "Sums", "kw": dict(sw, objective=spec), "dp_oracle": True}, spec)
            if n <= 12 and k <= 4:
                for a in ("ckk", "rnp") + (("snp",) if k <= 3 else ()):
                    _judge(acc, {"algo": a, "items": items, "k": k, "out": "Sums", "kw": {}, "dp_oracle": True}, "MinimizeDifference")
            if tier != "quick" and n in (9, 12) and k <= 3 and max(ms) <= 3:
                for spec in scopes.CG_OBJECTIVES:
                    _judge(acc, {"algo": "ilp", "items": items, "k": k, "out": "Sums", "kw": {"objective": spec}, "dp_oracle": True}, spec)
        if ms == chunk[0]:
            acc.sample({"items": items, "numbins": [2, 3, 4, 5, 7], "scope": "long-thin"})
    O.opt_partition_dp.cache_clear()
    return acc


def run_task(task):
    scope, chunk, ks, tier = task
    acc = Acc(ID, scope)
    kind = scope.split("-")[-1] if "-" in scope else scope
    if scope == "long-thin":
        return _long_thin(acc, chunk, tier)
    if scope in ("spread9", "eight"):
        for ms in chunk:
            for k in ks:
                acc.point(nontrivial=True)
                for a in (("rnp",) if tier == "quick" or scope == "eight" else ("rnp", "ckk")):        # snp costs seconds per call at this size
                    _judge(acc, {"algo": a, "items": list(ms), "k": k, "out": "Sums", "kw": {}, "dp_oracle": True}, "MinimizeDifference")
        acc.sample({"scope": scope, "items": list(chunk[0]), "k": list(ks)})
        O.opt_partition_dp.cache_clear()
        return acc
    if scope == "separating":
        for items, k, fl in chunk:
            ms = list(items)
            acc.point(nontrivial=True)
            for a in ("ckk", "snp", "rnp"):
                _judge(acc, {"algo": a, "items": ms, "k": k, "out": "Sums", "kw": {}}, "MinimizeDifference")
            for spec in scopes.CG_OBJECTIVES:
                for out in ("Sums", "PartitionAndSumsTuple"):
                    _judge(acc, {"algo": "dp", "items": ms, "k": k, "out": out, "kw": {"objective": spec}}, spec)
                if tier != "quick":
                    _judge(acc, {"algo": "ilp", "items": ms, "k": k, "out": "Sums", "kw": {"objective": spec}}, spec)
            for kw in scopes.cg_configs(all_switches=(tier != "quick")):
                _judge(acc, {"algo": "cg", "items": ms, "k": k, "out": "Sums", "kw": kw}, kw["objective"])
        acc.sample({"scope": scope, "items": list(chunk[0][0]), "k": chunk[0][1], "flags": chunk[0][2]})
        O.opt_partition.cache_clear()
        return acc
    for ms in chunk:
        n = len(ms)
        for k in ks:
            opt = O.opt_partition(tuple(ms), k)
            lpt = O.lpt_sums(ms, k)
            acc.point(nontrivial=(max(lpt) - min(lpt) != opt["diff"]))
            if kind == "rnp":
                for a in (("rnp",) if tier == "quick" else ("rnp", "snp")):
                    _judge(acc, {"algo": a, "items": list(ms), "k": k, "out": "Sums", "kw": {}}, "MinimizeDifference")
            elif kind == "exact":
                algos = []
                if k <= 5: algos.append("ckk")
                algos += ["snp", "rnp"]
                fmt = "dict_int" if scope.startswith("named") else "list"
                for a in algos:
                    _judge(acc, {"algo": a, "items": list(ms), "k": k, "out": "Sums", "kw": {}, "fmt": fmt}, "MinimizeDifference")
                if k ** n <= (4100 if tier == "quick" else 20000):
                    for spec in scopes.all_objectives(k):
                        _judge(acc, {"algo": "dp", "items": list(ms), "k": k, "out": "Sums", "kw": {"objective": spec}, "fmt": fmt}, spec)
                        if scope.split("-")[0] in ("fibq", "pow2q", "offset"):    # dp has a separate code path per output family
                            _judge(acc, {"algo": "dp", "items": list(ms), "k": k, "out": "PartitionAndSumsTuple", "kw": {"objective": spec}}, spec)
                if (scope.startswith("wide") and tier != "quick") or scope.split("-")[0] in ("fib", "near", "pow2"):
                    for spec in scopes.CG_OBJECTIVES:
                        _judge(acc, {"algo": "cg", "items": list(ms), "k": k, "out": "Sums", "kw": {"objective": spec}}, spec)
            elif kind == "cg":
                fmt = "dict_int" if scope.startswith("named") else "list"
                for kw in scopes.cg_configs(all_switches=not scope.startswith("offset")):
                    _judge(acc, {"algo": "cg", "items": list(ms), "k": k, "out": "Sums", "kw": kw, "fmt": fmt}, kw["objective"])
            else:  # ilp
                for spec in scopes.all_objectives(k):
                    _judge(acc, {"algo": "ilp", "items": list(ms), "k": k, "out": "Sums", "kw": {"objective": spec}}, spec)
        if ms == chunk[0]:
            acc.sample({"items": list(ms), "numbins": list(ks), "scope": scope,
                        "oracle": {kk: vv for kk, vv in O.opt_partition(tuple(ms), ks[-1]).items()}})
    O.opt_partition.cache_clear()
    return acc


def replay(case, acc):
    spec = (case.get("kw") or {}).get("objective", "MinimizeDifference")
    _judge(acc, case, spec)
