"""
C05 - bin-covering results are valid covers that waste less than one bin.
Engine E1.
"""
from .. import repo, scopes, spaces
from ..runner import Acc
from ..judge import judge_cover, cfg_str, inp_str

ID = "C05"
ENGINE = "E1"
LEVEL = "model_checking"
RULE = ("all multisets of 1..N positive integer items from 1..B+3 (items larger than the bin, repeats, inputs too small to cover "
        "anything) for several bin sizes, as list and as dict with names anti-correlated to the values; oracle: every bin sum "
        "(recomputed from the items) >= B, every input item used at most once, unused items total < B. A point is one "
        "(multiset, binsize, format); non-trivial = total >= B (something can be covered).")
ASSUMPTIONS = ["positive integer items", "bounds as listed in evidence.coverage.bounds"]

QUICK = [(6, 7), (10, 6), (12, 6)]
THOROUGH = [(6, 9), (10, 8), (12, 7), (9, 8)]


def bounds(tier):
    return {"scopes": [f"values 1..{B + 3}, 1..{N} items, binsize {B}, formats list + dict(str names) (+dict(int names), names+valueof up to 5 items)"
                       for B, N in (QUICK if tier == "quick" else THOROUGH)]}


def tasks(tier):
    ts = []
    for B, N in (QUICK if tier == "quick" else THOROUGH):
        for ch in scopes.chunk_multisets(range(1, B + 4), 1, N, 800):
            ts.append((f"B{B}", ch, B, ("list", "dict_str")))
        for ch in scopes.chunk_multisets(range(1, B + 4), 1, min(N, 5), 800):
            ts.append((f"B{B}-named", ch, B, ("dict_int", "names", "array")))
    return ts


def _one(acc, case):
    obs = repo.call(case)
    acc.ran(case["algo"]); acc.check()
    acc.outcome(obs[:2])
    for kind, exp, got in judge_cover(case, obs):
        acc.violation(case["algo"], cfg_str(case), inp_str(case), kind, exp, got, case)


def run_task(task):
    scope, chunk, B, fmts = task
    acc = Acc(ID, scope)
    for ms in chunk:
        for fmt in fmts:
            acc.point(nontrivial=(sum(ms) >= B))
            for a in scopes.COVER_ALGOS:
                _one(acc, {"algo": a, "items": list(ms), "B": B, "fmt": fmt})
        if ms == chunk[0]:
            acc.sample({"items": list(ms), "binsize": B, "formats": list(fmts)})
    return acc


def replay(case, acc):
    _one(acc, case)
