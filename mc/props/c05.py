"""
C05 - bin-covering results are valid covers that waste less than one bin.
Engine E1.
"""
from .. import repo, scopes, spaces
from ..runner import Acc
from ..judge import judge_cover, cfg_str, inp_str

ID = "C05"
ENGINE = "E1"
LEVEL = "model_checking"
RULE = ("all multisets of 1..N positive integer items from 1..B+3 (items larger than the bin, repeats, inputs too small to cover "
        "anything) for several bin sizes, as list and as dict with names anti-correlated to the values; oracle: every bin sum "
        "(recomputed from the items) >= B, every input item used at most once, unused items total < B. A point is one "
        "(multiset, binsize, format); non-trivial = total >= B (something can be covered).")
ASSUMPTIONS = ["positive integer items", "bounds as listed in evidence.coverage.bounds"]

LONG = [((1, 2), 9, 24, 5), ((1, 2, 3), 9, 16, 7), ((2, 3, 5), 9, 14, 10), ((1, 4, 9), 9, 14, 8)]
QUICK = [(6, 7), (10, 6), (12, 6)]
THOROUGH = [(6, 10), (10, 9), (12, 8), (9, 9), (15, 7), (20, 6)]


def bounds(tier):
    return {"long-thin": "9..14(24) items over {1,2} B=5,15; {1,2,3} B=7,21; {2,3,5} B=10,30; {1,4,9} B=8,24; list + dict",
            "fractional bin size": "B=7.5 (items 1..10) and B=10.5 (items 1..12), 1..5(6) items",
            "huge": "B=2**60, items in {2**59, 2**60, 3*2**59, 2**61, 3*2**60}, 1..5 items",
            "big": "B in {1e6, 2**32, 2**32+2, 3*2**31, 1e10}, letters 1, 2, the integers next to B/3 and B/2, B, B+1; 1..5(6) items; list, dict(int names), array",
            "planted-big": "B=12,13,9,101,99: every unordered pair of patterns x multiplicities (40,24)[,(100,20),(7,150)] plus floor(B/2) unit items",
            "scopes": [f"values 1..{B + 3}, 1..{N} items, binsize {B}, formats list + dict(str names) (+dict(int names), names+valueof up to 5 items)"
                       for B, N in (QUICK if tier == "quick" else THOROUGH)]}


def tasks(tier):
    ts = []
    for B, N in (QUICK if tier == "quick" else THOROUGH):
        for ch in scopes.chunk_multisets(range(1, B + 4), 1, N, 800):
            ts.append((f"B{B}", ch, B, ("list", "dict_str")))
        for ch in scopes.chunk_multisets(range(1, B + 4), 1, min(N, 5), 800):
            ts.append((f"B{B}-named", ch, B, ("dict_int", "dict_idx", "names", "names_rep", "array", "array_names")))
    # many items over tiny alphabets, magnitudes around 2**32 with letters next to the class thresholds, large planted covers
    for alpha, lo, hi, B in LONG:
        for ch in scopes.chunk_multisets(alpha, lo, hi if tier != "quick" else min(hi, lo + 5), 200):
            for Bx in (B, 3 * B):
                ts.append((f"long-B{Bx}", ch, Bx, ("list", "dict_str")))
    for Bc in scopes.BIG_BINSIZES:
        for ch in scopes.chunk_multisets(scopes.threshold_letters(Bc), 1, 5 if tier == "quick" else 6, 400):
            ts.append(("big", ch, Bc, ("list", "dict_int", "array")))
    # non-integer bin sizes with integer items, and items of magnitude 2**59..2**62 (sums still exact: multiples of 2**59)
    for Bf, top in ((7.5, 10), (10.5, 12)):
        for ch in scopes.chunk_multisets(range(1, top + 1), 1, 5 if tier == "quick" else 6, 400):
            ts.append((f"fractional-B{Bf}", ch, Bf, ("list", "dict_str")))
    for ch in scopes.chunk_multisets((2 ** 59, 2 ** 60, 3 * 2 ** 59, 2 ** 61, 3 * 2 ** 60), 1, 5, 200):
        ts.append(("huge", ch, 2 ** 60, ("list", "dict_int")))
    from .c10 import PLANT_BIG
    for Bb, lettersb in PLANT_BIG:
        pats = spaces.partitions_of(Bb, lettersb, 4)
        big = []
        for i, pth in enumerate(pats):
            for r in pats[i:]:
                for a, b in (((40, 24),) if tier == "quick" else ((40, 24), (100, 20), (7, 150))):
                    big.append(tuple(sorted(pth * a + r * b + (1,) * (Bb // 2), reverse=True)))   # plus a remainder smaller than a bin
        for ch in spaces.chunked(big, 40):
            ts.append(("planted-big", ch, Bb, ("list",)))
    return ts


def _one(acc, case):
    obs = repo.call(case)
    acc.ran(case["algo"]); acc.check()
    acc.outcome(obs[:2])
    for kind, exp, got in judge_cover(case, obs):
        acc.violation(case["algo"], cfg_str(case), inp_str(case), kind, exp, got, case)


def _sums_only(acc, case):
    """the same clauses read off the sums-only output (another bins-manager computes it): every reported sum >= B, the reported
    sums total at most the input, and what they leave over is < B"""
    obs = repo.call(case)
    acc.ran(case["algo"]); acc.check()
    if obs[0] == "exc":
        acc.violation(case["algo"], cfg_str(case), inp_str(case), "raises", "sums", f"{obs[1]}: {obs[2]}", case); return
    sums = list(obs[1]); B = case["B"]; total = sum(case["items"])
    if any(s < B for s in sums):
        acc.violation(case["algo"], cfg_str(case), inp_str(case), "uncovered_bin", f">= {B}", sums, case)
    elif sum(sums) > total:
        acc.violation(case["algo"], cfg_str(case), inp_str(case), "invented_or_reused", f"sums total <= {total}", sums, case)
    elif not total - sum(sums) < B:
        acc.violation(case["algo"], cfg_str(case), inp_str(case), "waste", f"unused total < {B}", total - sum(sums), case)


def run_task(task):
    scope, chunk, B, fmts = task
    acc = Acc(ID, scope)
    for ms in chunk:
        for fmt in fmts:
            acc.point(nontrivial=(sum(ms) >= B))
            for a in scopes.COVER_ALGOS:
                _one(acc, {"algo": a, "items": list(ms), "B": B, "fmt": fmt})
                if fmt == "list" and (scope in ("big", "huge") or scope.startswith("fractional") or len(ms) <= 4):
                    _sums_only(acc, {"algo": a, "items": list(ms), "B": B, "fmt": fmt, "out": "Sums"})
        if ms == chunk[0]:
            acc.sample({"items": list(ms), "binsize": B, "formats": list(fmts)})
    return acc


def replay(case, acc):
    if case.get("out") == "Sums":
        _sums_only(acc, case)
    else:
        _one(acc, case)
