"""
C12 - balanced 2-way partitioning (CBLDM) obeys the cardinality bound and is optimal under it.
Engine E1; oracle = reachable (cardinality, sum) pairs of one side (cross-validated against 2^n enumeration).
"""
from collections import Counter
from .. import repo, scopes, spaces, oracles as O
from ..runner import Acc
from ..judge import cfg_str, inp_str

ID = "C12"
ENGINE = "E1"
LEVEL = "model_checking"
RULE = ("all multisets of 1..N non-negative integers (zeros, repeats) from an alphabet x every cardinality bound d in 1..n and the "
        "default (unbounded), no time limit, list and dict input; oracle: two bins holding every item exactly once, "
        "| |A|-|B| | <= d, and |sum(A)-sum(B)| equals the minimum over all two-way partitions obeying the bound. "
        "A point is one (multiset, bound); non-trivial = the bound is binding (the bounded optimum differs from the unbounded one) "
        "or the optimum differs from the first (KK/LDM) leaf's value is not observable, so only the former is counted.")
ASSUMPTIONS = ["non-negative integer items", "bounds as listed in evidence.coverage.bounds"]


def bounds(tier):
    q = tier == "quick"
    return {"dense": f"values 0..6, 1..{8 if q else 11} items, every bound 1..n and default",
            "spread": f"alphabets fibonacci (1,2,3,5,8,13,21) and powers of two, 1..{6 if q else 9} items",
            "dict": "values 0..4, 1..5 items, dict with string names",
            "long-thin": f"9..{15 if q else 25} items over {{1,2}}, 9..{12 if q else 17} over {{1,2,3}}, 9..{11 if q else 14} over {{0,1,5}} and {{2,3,7}}, every bound 1..n and default, non-sorted presentation",
            "offset": f"letters {{b/2+7, b+1, b+5, b+6, 2b+1, 2b+8}} for b in {{1e5, 1e6, 2**24, 1e9}}, 2..{6 if q else 8} items, every bound",
            "dense10": f"values 0..10, 1..{6 if q else 8} items, every bound" + ("; values 0..6 with exactly 9 items" if q else ""),
            "big": f"values {{0, 1, 2**24+1, 2**31+1, 2**32+3, 2**40+5}}, 1..{6 if q else 8} items, every bound"}


def tasks(tier):
    q = tier == "quick"
    ts = []
    for ch in scopes.chunk_multisets(range(0, 7), 1, 8 if q else 11, 150):
        ts.append(("dense", ch, "list"))
    for alpha in ((1, 2, 3, 5, 8, 13, 21), (1, 2, 4, 8, 16, 32)):
        for ch in scopes.chunk_multisets(alpha, 1, 6 if q else 9, 150):
            ts.append(("spread", ch, "list"))
    for ch in scopes.chunk_multisets(range(0, 5), 1, 5, 100):
        ts.append(("dict", ch, "dict_str"))
    # many items over tiny alphabets (reachable (cardinality, sum) pairs stay few: the oracle is polynomial) and big magnitudes
    for ch in spaces.chunked(scopes.long_thin_multisets(tier), 10):
        ts.append(("long-thin", ch, "list"))
    for ch in scopes.chunk_multisets(scopes.BIG_VALUES, 1, 6 if q else 8, 60):
        ts.append(("big", ch, "list"))
    for ch in spaces.chunked(scopes.offset_multisets(2, 6 if q else 8), 60):
        ts.append(("offset", ch, "list"))
    for ch in scopes.chunk_multisets(range(0, 11), 1, 6 if q else 8, 200):
        ts.append(("dense10", ch, "list"))
    if q:
        for ch in scopes.chunk_multisets(range(0, 7), 9, 9, 150):
            ts.append(("dense", ch, "list"))
    return ts


def _judge(acc, items, d, fmt):
    kw = {} if d is None else {"partition_difference": d}
    case = {"algo": "cbldm", "items": list(items), "k": 2, "fmt": fmt, "kw": kw}
    obs = repo.call(case)
    acc.ran("cbldm")
    if obs[0] == "exc":
        acc.violation("cbldm", cfg_str(case), inp_str(case), "raises", "a partition", obs[1:], case); return
    (sums, lists), dd = obs[1], obs[2]
    names = list(dd.keys()) if dd else list(items)
    val = (lambda x: dd[x]) if dd else (lambda x: x)
    if len(lists) != 2 or Counter(x for b in lists for x in b) != Counter(names):
        acc.violation("cbldm", cfg_str(case), inp_str(case), "not_a_two_way_partition", names, lists, case); return
    ca, cb = len(lists[0]), len(lists[1])
    if d is not None and abs(ca - cb) > d:
        acc.violation("cbldm", cfg_str(case), inp_str(case), "cardinality_bound", f"<= {d}", f"{ca} vs {cb}: {lists}", case)
    sa, sb = sum(map(val, lists[0])), sum(map(val, lists[1]))
    if [sa, sb] != list(sums):
        acc.violation("cbldm", cfg_str(case), inp_str(case), "sum_mismatch", [sa, sb], sums, case)
    want = O.opt_two_way(tuple(items), d)
    if abs(sa - sb) != want:
        acc.violation("cbldm", cfg_str(case), inp_str(case), "suboptimal", f"difference {want}", f"{abs(sa - sb)}: {lists}", case)
    acc.check()
    acc.outcome((abs(sa - sb) - want, abs(ca - cb) <= (d or 99)))


def run_task(task):
    scope, chunk, fmt = task
    acc = Acc(ID, scope)
    for ms in chunk:
        free = O.opt_two_way(tuple(ms), None)
        if scope == "long-thin":
            ms = scopes.scramble(ms)
        for d in [None] + list(range(1, len(ms) + 1)):
            acc.point(nontrivial=(d is not None and O.opt_two_way(tuple(ms), d) != free))
            _judge(acc, ms, d, fmt)
        if ms == chunk[0]:
            acc.sample({"items": list(ms), "bounds": ["default"] + list(range(1, len(ms) + 1)), "format": fmt})
    O.opt_two_way.cache_clear()
    return acc


def replay(case, acc):
    _judge(acc, case["items"], (case.get("kw") or {}).get("partition_difference"), case.get("fmt", "list"))
