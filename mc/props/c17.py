"""
C17 - ILP options (copies, weights, constraints) are honoured; sums come out ascending.
Engine E1; oracle = enumeration of every integer count matrix with the prescribed row sums (the documented model).
Solver answers are an enumerated environment: every mip.OptimizationStatus is injected through the module seam.
"""
from collections import Counter
from fractions import Fraction
from itertools import product
from .. import repo, scopes, spaces
from ..runner import Acc
from ..judge import cfg_str, inp_str

ID = "C17"
ENGINE = "E1"
LEVEL = "model_checking"
RULE = ("value multisets over {0,1,2,3,5} (+ a spread set <= 200) x k=1..3 x option families enumerated completely, one family at a "
        "time plus pairs: copies (scalar 1, scalar 2, every per-item vector over {0,1,2}), weights (every vector in {1,2,3}^k), "
        "additional constraints (smallest==c, largest<=c, smallest>=c for EVERY c in 0..total+1, infeasible ones included), five "
        "objectives; oracle: enumeration of all count matrices with the prescribed row sums under the documented model (bin i "
        "belongs to weight i, weighted sums non-decreasing in bin index, constraints and objective evaluated on those weighted sums): "
        "multiplicities equal copies, sums describe the lists, sums non-decreasing (no / equal weights), constraints hold on the "
        "result, value optimal among feasible, infeasible <=> ValueError, equal weights give the unweighted optimum. "
        "Solver seam: after the real solve `optimize` is made to answer every member of mip.OptimizationStatus; everything but "
        "OPTIMAL must raise ValueError. A point is one (input, k, options); non-trivial = copies != 1, or unequal weights, or a "
        "binding / infeasible constraint.")
ASSUMPTIONS = ["values <= 200, CBC as shipped; a disagreement is re-solved with preprocessing off and only a persisting one is a violation",
               "weighted optimality is judged against the documented model (ascending weighted sums), see DESIGN.md C17",
               "no wall-clock time_limit is ever passed"]

ALPHA = (0, 1, 2, 3, 5)
SPREAD = (199, 101, 53, 7)
OBJ5 = ("MinimizeDifference", "MaximizeSmallestSum", "MinimizeLargestSum", "MaximizeKSmallestSums(2)", "MinimizeKLargestSums(2)")


def bounds(tier):
    q = tier == "quick"
    return {"values": f"multisets of 1..{3 if q else 4} items over {ALPHA}, plus sub-multisets of {SPREAD}", "k": "1..3" if q else "1..4 (k=4 for copies/constraints only)",
            "copies": "1, 2, every per-item vector over {0,1,2}", "weights": "{1,2,3}^k", "constraints": "eq0 / le_last / ge0 for every c in 0..total+1",
            "fractional weights": "every weight vector over {0.25, 0.5, 1}^k, k=2..3, three objectives (weight sums below the number of bins included)",
            "two constraints": f"multisets of 2..{3 if q else 4} items over (1,2,3), k=2..3: smallest>=c1 and largest<=c2, largest<=c2 and smallest==c1, for every c1<=c2",
            "four bins": f"multisets of 3..{4 if q else 5} items over (1,2,3,5,6), k=4, five objectives unweighted + 4 unequal weight vectors x 3 objectives",
            "gap": f"multisets of 4..{5 if q else 6} items over (1,5,7,9), k=3, weights (1,3,4),(2,3,5),(1,2,7),(3,4,5) x difference / 2-largest / 2-smallest",
            "statuses": "all 12 members of mip.OptimizationStatus"}


def _values(tier):
    n = 3 if tier == "quick" else 4
    vs = list(spaces.multisets(ALPHA, 1, n))
    vs += [c for r in (1, 2, 3) for c in __import__("itertools").combinations(SPREAD, r)]
    return vs


def tasks(tier):
    q = tier == "quick"
    ts = []
    vs = _values(tier)
    ks = (1, 2, 3) if q else (1, 2, 3, 4)
    for ch in spaces.chunked(vs, 2):
        ts.append(("copies", ch, ks))
        ts.append(("constraints", ch, ks))
    for ch in spaces.chunked(vs, 2):
        ts.append(("weights", ch, (1, 2, 3)))
    small = [v for v in vs if len(v) <= 2]
    for ch in spaces.chunked(small, 2):
        ts.append(("pairs", ch, (2, 3)))
    for ch in spaces.chunked([v for v in vs if len(v) == 3][:12 if q else 40], 2):
        ts.append(("status", ch, (2,)))
    for ch in spaces.chunked([v for v in vs if len(v) <= 3][:20], 4):
        ts.append(("dict", ch, (2, 3)))
    for ch in spaces.chunked([v for v in vs if 2 <= len(v) <= 3][:30 if q else 80], 3):
        ts.append(("fracw", ch, (2, 3)))
    for ch in spaces.chunked([v for v in spaces.multisets((1, 2, 3), 2, 3 if q else 4)], 2):
        ts.append(("two-constraints", ch, (2, 3)))
    # four bins: the middle bins are ordered only by the chain of consecutive constraints; multi-bin objectives and unequal weights
    for ch in spaces.chunked([v for v in spaces.multisets((1, 2, 3, 5, 6), 3, 4 if q else 5)], 3):
        ts.append(("four", ch, (4,)))
    # larger weights whose pairwise lcm exceeds the largest weight, multi-bin objectives, values up to 9
    for ch in spaces.chunked(list(spaces.multisets((1, 5, 7, 9), 4, 5 if q else 6)), 3):
        ts.append(("gap", ch, (3,)))
    return ts


# ------------------------------------------------------------------ oracle

def _obj(spec, ws):
    """value_to_minimize on a vector the model constrains to be ascending (index order)"""
    if spec == "MinimizeDifference": return ws[-1] - ws[0]
    if spec == "MaximizeSmallestSum": return -ws[0]
    if spec == "MinimizeLargestSum": return ws[-1]
    name, a = spec.split("("); j = int(a[:-1])
    if name == "MaximizeKSmallestSums": return -sum(ws[:j])
    if name == "MinimizeKLargestSums": return sum(ws[-j:]) if j else 0
    raise ValueError(spec)


def _pred(cons):
    if not cons: return lambda ws: True
    specs = cons if isinstance(cons[0], list) else [cons]

    def p(ws):
        for kind, c in specs:
            if kind == "eq0" and ws[0] != c: return False
            if kind == "le_last" and ws[-1] > c: return False
            if kind == "ge0" and ws[0] < c: return False
        return True
    return p


_COMP = {}


def _compositions(c, k):
    key = (c, k)
    if key not in _COMP:
        _COMP[key] = list(spaces.compositions(c, k))
    return _COMP[key]


def opt_counts(values, copies, k, weights, cons, spec):
    """-> (optimum value or None if infeasible, unrestricted optimum ignoring the ascending-order restriction)"""
    w = weights or [1] * k
    pred = _pred(cons)
    best = None; free = None
    rows = [_compositions(c, k) for c in copies]
    for mat in product(*rows):
        sums = [sum(mat[i][j] * values[i] for i in range(len(values))) for j in range(k)]
        ws = [Fraction(sums[j]) / Fraction(w[j]) for j in range(k)]
        srt = sorted(ws)
        if pred(srt):
            v = _obj(spec, srt)
            if free is None or v < free: free = v
        if all(ws[j] <= ws[j + 1] for j in range(k - 1)) and pred(ws):
            v = _obj(spec, ws)
            if best is None or v < best: best = v
    return best, free


# ------------------------------------------------------------------ judgement

def _problems(obs, values, cvec, k, weights, cons, spec, want):
    """-> (list of (kind, expected, observed), objective value or None) for one observation"""
    if want is None:
        if obs[0] == "ok":
            return [("infeasible_answered", "ValueError (no feasible partition)", obs[1])], None
        if obs[1] != "ValueError":
            return [("wrong_exception_type", "ValueError", obs[1:])], None
        return [], None
    if obs[0] == "exc":
        return [("feasible_refused", f"a partition with value {want}", f"{obs[1]}: {obs[2]}")], None
    (sums, lists), d = obs[1], obs[2]
    names = list(d.keys()) if d else list(values)
    val = (lambda x: d[x]) if d else (lambda x: x)
    if len(lists) != k or len(sums) != k:
        return [("numbins", k, len(lists))], None
    got = Counter(x for b in lists for x in b)
    exp = Counter()
    for nm, c in zip(names, cvec): exp[nm] += c
    exp = +exp
    if got != exp:
        return [("copies_not_honoured", dict(exp), dict(got))], None
    out = []
    real = [sum(val(x) for x in b) for b in lists]
    if real != list(sums):
        out.append(("sum_mismatch", real, sums))
    w = list(weights) if weights is not None else [1] * k
    ws = [Fraction(real[j]) / Fraction(w[j]) for j in range(k)]
    equal_w = len(set(w)) == 1
    if equal_w and any(real[j] > real[j + 1] for j in range(k - 1)):
        out.append(("sums_not_ascending", "non-decreasing sums", real))
    if not equal_w and any(ws[j] > ws[j + 1] for j in range(k - 1)):
        out.append(("bins_not_aligned_with_weights", f"sums[i]/weights[i] non-decreasing in i (weights {w})", f"sums {real} -> {[str(x) for x in ws]}"))
        return out, None
    if not _pred(cons)(ws):
        out.append(("constraint_violated_by_result", cons, f"sums {real} weighted {[str(x) for x in ws]}"))
        return out, None
    v = _obj(spec, ws)
    if v != want:
        out.append(("suboptimal", f"{spec} value {want}", f"value {v}, sums {real}"))
    return out, v


def _judge(acc, values, k, spec, copies=1, weights=None, cons=None, fmt="list", nontrivial=False):
    kw = {"objective": spec}
    if copies != 1: kw["copies"] = copies
    if weights is not None: kw["weights"] = list(weights)
    if cons: kw["additional_constraints"] = cons
    case = {"algo": "ilp", "items": list(values), "k": k, "fmt": fmt, "kw": kw}
    cvec = [copies] * len(values) if isinstance(copies, int) else list(copies)
    want, free = opt_counts(values, cvec, k, weights, cons, spec)
    obs = repo.call(case)
    acc.ran("ilp"); acc.check()
    acc.point(nontrivial=nontrivial or want is None)
    probs, v = _problems(obs, values, cvec, k, weights, cons, spec, want)
    if probs:
        # solver seam: only a failure that survives a re-solve with preprocessing off is held against prtpy
        obs2 = repo.call_ilp_no_preprocess(case)
        acc.ran("ilp")
        probs2, _ = _problems(obs2, values, cvec, k, weights, cons, spec, want)
        if not probs2:
            acc.note("solver_inconsistencies")
            acc.note("solver_inconsistency: " + cfg_str(case) + " " + inp_str(case) + " -> " + probs[0][0])
        else:
            for kind, exp, got in probs:
                acc.violation("ilp", cfg_str(case), inp_str(case), kind, exp, got, case)
    if free is not None and want is not None and free < want:
        acc.note("unrestricted_weighted_optimum_better")
    acc.outcome((spec, "infeasible" if want is None else str(v - want) if v is not None else "bad"))
    return v if not probs else None


def _status(acc, values, k):
    import mip
    case = {"algo": "ilp", "items": list(values), "k": k, "kw": {"objective": "MinimizeDifference"}}
    ref = repo.call(case); acc.ran("ilp")
    for st in mip.OptimizationStatus:
        obs = repo.call_ilp_forced_status(case, st)
        acc.ran("ilp"); acc.check()
        acc.point(nontrivial=(st != mip.OptimizationStatus.OPTIMAL))
        c2 = dict(case, forced_status=st.name)
        if st == mip.OptimizationStatus.OPTIMAL:
            if obs[:2] != ref[:2]:
                acc.violation("ilp", "forced_status=OPTIMAL", inp_str(case), "optimal_status_not_accepted", ref[:2], obs[:2], c2)
        elif obs[0] == "ok":
            acc.violation("ilp", f"forced_status={st.name}", inp_str(case), "answered_without_proof_of_optimality", "ValueError", obs[1], c2)
        elif obs[1] != "ValueError":
            acc.violation("ilp", f"forced_status={st.name}", inp_str(case), "wrong_exception_type", "ValueError", obs[1:], c2)
        acc.outcome((st.name, obs[0]))


def run_task(task):
    scope, chunk, ks = task
    acc = Acc(ID, scope)
    for values in chunk:
        values = tuple(values)
        n = len(values); total = sum(values)
        for k in ks:
            if scope == "copies":
                opts = [1, 2] + [list(c) for c in product((0, 1, 2), repeat=n)]
                for cp in opts:
                    for spec in ("MinimizeDifference", "MaximizeSmallestSum"):
                        _judge(acc, values, k, spec, copies=cp, nontrivial=(cp != 1))
            elif scope == "weights":
                for w in product((1, 2, 3), repeat=k):
                    for spec in OBJ5:
                        v = _judge(acc, values, k, spec, weights=w, nontrivial=(len(set(w)) > 1))
                        if len(set(w)) == 1 and w[0] != 1 and v is not None:
                            # equal weights never change the result: value * weight == unweighted optimum
                            vw = opt_counts(values, [1] * n, k, None, None, spec)[0]
                            if v * w[0] != vw:
                                acc.violation("ilp", f"obj={spec};weights={list(w)}", f"{list(values)};k={k}", "equal_weights_change_result", vw, v * w[0],
                                              {"algo": "ilp", "items": list(values), "k": k, "kw": {"objective": spec, "weights": list(w)}})
            elif scope == "constraints":
                for spec in ("MinimizeDifference", "MinimizeLargestSum"):
                    base = opt_counts(values, [1] * n, k, None, None, spec)[0]
                    for form in ("eq0", "le_last", "ge0"):
                        for c in range(0, total + 2):
                            cons = [form, c]
                            w_ = opt_counts(values, [1] * n, k, None, cons, spec)[0]
                            _judge(acc, values, k, spec, cons=cons, nontrivial=(w_ != base))
            elif scope == "pairs":
                for c in range(0, 2 * total + 2):
                    _judge(acc, values, k, "MinimizeLargestSum", copies=2, cons=["eq0", c], nontrivial=True)
                for w in product((1, 2), repeat=k):
                    for c in range(0, total + 2):
                        _judge(acc, values, k, "MaximizeSmallestSum", weights=w, cons=["le_last", c], nontrivial=True)
                _judge(acc, values, k, "MinimizeDifference", copies=2, weights=tuple(range(1, k + 1)), nontrivial=True)
                _judge(acc, values, k, "MinimizeDifference", cons=[["ge0", 1], ["le_last", total]], nontrivial=True)
            elif scope == "fracw":
                for w in product((0.5, 1, 0.25), repeat=k):
                    if len(set(w)) == 1 and w[0] == 1:
                        continue
                    for spec in ("MaximizeSmallestSum", "MinimizeDifference", "MinimizeLargestSum"):
                        wq = tuple(Fraction(x) for x in w)
                        v = _judge(acc, values, k, spec, weights=w, nontrivial=True)
                        if len(set(w)) == 1 and v is not None:
                            vw = opt_counts(values, [1] * n, k, None, None, spec)[0]
                            if v * Fraction(w[0]) != vw:
                                acc.violation("ilp", f"obj={spec};weights={list(w)}", f"{list(values)};k={k}", "equal_weights_change_result", vw, v * Fraction(w[0]),
                                              {"algo": "ilp", "items": list(values), "k": k, "kw": {"objective": spec, "weights": list(w)}})
            elif scope == "two-constraints":
                for c1 in range(0, total + 1):
                    for c2 in range(c1, total + 2):
                        _judge(acc, values, k, "MinimizeDifference", cons=[["ge0", c1], ["le_last", c2]], nontrivial=True)
                        _judge(acc, values, k, "MaximizeSmallestSum", cons=[["le_last", c2], ["eq0", c1]], nontrivial=True)
            elif scope == "four":
                for spec in OBJ5:
                    _judge(acc, values, k, spec, nontrivial=True)
                for w in ((1, 2, 3, 1), (2, 1, 1, 3), (1, 1, 2, 2), (3, 2, 1, 1)):
                    for spec in ("MinimizeDifference", "MaximizeSmallestSum", "MinimizeKLargestSums(2)"):
                        _judge(acc, values, k, spec, weights=w, nontrivial=True)
            elif scope == "gap":
                for w in ((1, 3, 4), (2, 3, 5), (1, 2, 7), (3, 4, 5)):
                    for spec in ("MinimizeDifference", "MinimizeKLargestSums(2)", "MaximizeKSmallestSums(2)"):
                        _judge(acc, values, k, spec, weights=w, nontrivial=True)
            elif scope == "status":
                _status(acc, values, k)
            else:  # dict / names formats: per-item copies are exact on names
                for fmt in ("dict_str", "names"):
                    for cp in (1, [i % 3 for i in range(n)], 2):
                        _judge(acc, values, k, "MinimizeDifference", copies=cp, fmt=fmt, nontrivial=(cp != 1))
                    _judge(acc, values, k, "MaximizeSmallestSum", weights=tuple(range(1, k + 1)), fmt=fmt, nontrivial=True)
    acc.sample({"scope": scope, "values": list(chunk[0]), "k": list(ks)})
    return acc


def replay(case, acc):
    kw = case.get("kw") or {}
    if "forced_status" in case:
        _status(acc, tuple(case["items"]), case["k"]); return
    _judge(acc, tuple(case["items"]), case["k"], kw.get("objective", "MinimizeDifference"), copies=kw.get("copies", 1),
           weights=kw.get("weights"), cons=kw.get("additional_constraints"), fmt=case.get("fmt", "list"))
