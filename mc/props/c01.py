"""
C01 - every partitioner returns a true partition into the requested number of bins.
Engine E1 (small-scope exhaustive enumeration of configuration x input).
"""
from .. import repo, scopes, spaces
from ..runner import Acc
from ..judge import judge_partition, cfg_str, inp_str

ID = "C01"
ENGINE = "E1"
LEVEL = "model_checking"
RULE = ("every multiset of 1..N values from 0..V (zeros, repeats, all-equal included) x every bin count 1..K "
        "(more bins than items included) x every partitioner x every complete-greedy switch/objective combination "
        "x formats list/dict/names+valueof; oracle: the multiset of returned item names equals the input, "
        "len(bins)==numbins (multifit <=), result not None, no exception.  A point is one (input, numbins) pair; "
        "non-trivial = at least 2 items and at least 2 bins.")
ASSUMPTIONS = ["values are small non-negative integers (float64 sums exact)",
               "ckk limited to k<=5 (6 thorough), dp-with-contents to k**n<=4100 (20000), ilp to its own smaller scope: cost bounds of the harness",
               "a silent run says nothing about inputs beyond the enumerated bounds"]


def bounds(tier):
    if tier == "quick":
        return {"dense": "values 0..5, 1..6 items, 1..7 bins", "ilp": "values 0..4, 1..5 items, 1..4 bins",
                "named formats": "dict(str names), dict(int names), names+valueof (unique names; one name per distinct value, repeated; numpy array of ids) on 1..4 items",
                "big": "values {0, 1, 2**24+1, 2**31+1, 2**32+3, 2**40+5}, 1..4 items, 1..4 bins, all partitioners and all cg configurations",
                "spread-heur": "greedy/roundrobin/multifit/kk on all multisets of 7 items over (1,2,3,4,6,9,11,16,20,25), k=2..4, non-sorted presentation",
                "spread-heur": "greedy/roundrobin/multifit/kk on all multisets of 7 items over 1..25, k=2..4, non-sorted presentation",
                "wide-rnp5": "rnp with 5 bins (its nested odd/even levels) on every second chunk of the multisets of 8 items over 1..7",
                "wide-search": "snp/rnp/ckk/cg on all multisets of 7 items over 1..6 (k=3..5), every 6th chunk of the 8-item multisets over 0..10 (k=4), and 9..10 items over 1..3 given as a dict (k=4..5)",
                "count-sweep": "every numbins k in 1..24 with k-1, k, k+1, 2k+1 items over {1,2,3}: greedy/roundrobin/multifit/kk/cg x 3 objectives (+cbldm k=2, snp where items <= k+1 and k <= 6)",
                "long-thin": "9..15 items over {1,2}, 9..12 over {1,2,3}, 9..11 over {0,1,5} and {2,3,7}, bins {2,3,4,5,7,n,n+1}, non-sorted presentation: greedy/roundrobin/multifit/kk/cg(default switches, 3 objectives)/cbldm"}
    return {"dense": "values 0..7, 1..7 items, 1..8 bins", "ilp": "values 0..5, 1..6 items, 1..4 bins",
            "named formats": "dict(str names), dict(int names), names+valueof (unique names; one name per distinct value, repeated; numpy array of ids) on 1..5 items",
            "big": "values {0, 1, 2**24+1, 2**31+1, 2**32+3, 2**40+5}, 1..5 items, 1..4 bins, all partitioners and all cg configurations",
            "wide-rnp5": "rnp with 5 bins on all multisets of 8..9 items over 1..7",
            "wide-search": "snp/rnp/ckk/cg on all multisets of 7 items over 1..10 (k=3..5), of 8 items over 0..10 (k=4), and 9..10 items over 1..4 given as a dict (k=4..5)",
            "count-sweep": "every numbins k in 1..70 with k-1, k, k+1, 2k+1 items over {1,2,3}: greedy/roundrobin/multifit/kk/cg x 3 objectives (+cbldm k=2, snp where items <= k+1 and k <= 6)",
            "long-thin": "9..24 items over {1,2}, 9..16 over {1,2,3}, 9..13 over {0,1,5} and {2,3,7}, bins {2,3,4,5,7,n,n+1}, non-sorted presentation: greedy/roundrobin/multifit/kk/cg(default switches, 3 objectives)/cbldm"}


def tasks(tier):
    q = tier == "quick"
    V, N, K = (5, 6, 7) if q else (7, 7, 8)
    ts = []
    for ch in scopes.chunk_multisets(range(0, V + 1), 1, N, 40 if q else 60):
        ts.append(("dense-simple", ch, K, "list"))
        ts.append(("dense-cg", ch, K, "list"))
    Nn = 4 if q else 5
    for fmt in ("dict_str", "dict_int", "dict_idx", "names", "names_rep", "array_names"):
        for ch in scopes.chunk_multisets(range(0, V + 1), 1, Nn, 60):
            ts.append(("named-simple", ch, K, fmt))
            ts.append(("named-cg", ch, K, fmt))
    Vi, Ni, Ki = (4, 5, 4) if q else (5, 6, 4)
    for ch in scopes.chunk_multisets(range(0, Vi + 1), 1, Ni, 12):
        ts.append(("ilp", ch, Ki, "list"))
    for ch in scopes.chunk_multisets(range(0, 3), 1, 3, 20):
        ts.append(("ilp", ch, 3, "dict_int"))
    for ch in scopes.chunk_multisets(scopes.BIG_VALUES, 1, 4 if q else 5, 30):
        ts.append(("big-simple", ch, 4, "list"))
        ts.append(("big-cg", ch, 4, "list"))
        ts.append(("big-simple", ch, 4, "dict_str"))
    for ch in spaces.chunked(scopes.long_thin_multisets(tier), 40):
        ts.append(("long-heur", ch, 0, "list"))
    for ch in spaces.chunked(scopes.count_sweep_partition(tier), 12):
        ts.append(("count-sweep", ch, 0, "list"))
    # inputs on which the searches really iterate after an improvement (contents-keeping path)
    for ch in scopes.chunk_multisets(range(1, 7 if q else 11), 7, 7, 40):
        ts.append(("wide-search", ch, (3, 4, 5), "list"))
    for ch in scopes.chunk_multisets(range(0, 11), 8, 8, 40)[:: (6 if q else 1)]:
        ts.append(("wide-search", ch, (4,), "list"))
    for ch in scopes.chunk_multisets(range(1, 8), 8, 8 if q else 9, 40)[:: (2 if q else 1)]:
        ts.append(("wide-rnp5", ch, (5,), "list"))
    # the cheap heuristics on seven and eight items with values spread over a 1:25 range (multifit's bin count depends on
    # first-fit succeeding at the capacity its search ends with)
    SPREAD = (1, 2, 3, 4, 6, 9, 11, 16, 20, 25)
    for ch in scopes.chunk_multisets(SPREAD if q else range(1, 26), 7, 7, 300):
        ts.append(("spread-heur", ch, (2, 3, 4), "list"))
    # nine and ten items with many repeated values, presented by name (two name-sets with equal values must stay distinct)
    for n in (9, 10):
        for ch in scopes.chunk_multisets(range(1, 4 if q else 5), n, n, 12):
            ts.append(("wide-search", ch, (4, 5), "dict_str"))
    return ts


def _one(acc, case):
    obs = repo.call(case)
    acc.ran(case["algo"]); acc.check()
    acc.outcome(obs[:2])
    probs = list(judge_partition(case, obs, allow_fewer=(case["algo"] == "multifit")))
    if probs and case["algo"] == "ilp":
        # solver seam: a CBC preprocessing inconsistency is not a prtpy defect (C02 quantifier); re-solve with preprocessing off
        obs2 = repo.call_ilp_no_preprocess(case)
        acc.ran("ilp")
        if not list(judge_partition(case, obs2)):
            acc.note("solver_inconsistencies"); probs = []
    for kind, exp, got in probs:
        acc.violation(case["algo"], cfg_str(case), inp_str(case), kind, exp, got, case)


def run_task(task):
    scope, chunk, K, fmt = task
    acc = Acc(ID, scope)
    if scope == "spread-heur":
        for ms in chunk:
            for k in K:
                acc.point(nontrivial=True)
                for algo in scopes.SIMPLE_PARTITIONERS:
                    _one(acc, {"algo": algo, "items": list(scopes.scramble(ms)), "k": k, "fmt": fmt, "out": "PartitionAndSumsTuple", "kw": {}})
        acc.sample({"scope": scope, "items": list(chunk[0]), "numbins": list(K)})
        return acc
    if scope in ("wide-search", "wide-rnp5"):
        for ms in chunk:
            for k in K:
                acc.point(nontrivial=True)
                for algo in (("snp", "rnp", "ckk", "cg") if scope == "wide-search" else ("rnp",)):
                    if algo == "ckk" and len(ms) > 8:
                        continue
                    kw = {"objective": "MinimizeDifference"} if algo == "cg" else {}
                    _one(acc, {"algo": algo, "items": list(ms), "k": k, "fmt": fmt, "out": "PartitionAndSumsTuple", "kw": kw})
        acc.sample({"scope": scope, "items": list(chunk[0]), "numbins": list(K), "format": fmt})
        return acc
    if scope == "count-sweep":
        for items, k in chunk:
            acc.point(nontrivial=(k >= 2 and len(items) >= 2))
            cfgs = [(a, {}) for a in scopes.SIMPLE_PARTITIONERS] + [("cg", {"objective": o}) for o in scopes.CG_OBJECTIVES] + [("snp", {})]
            if k == 2: cfgs.append(("cbldm", {}))
            for algo, kw in cfgs:
                if algo == "snp" and (len(items) > k + 1 or k > 6):
                    continue          # cost bound of the harness: snp only where items <= bins + 1 and bins <= 6
                _one(acc, {"algo": algo, "items": list(items), "k": k, "fmt": fmt, "out": "PartitionAndSumsTuple", "kw": kw})
        acc.sample({"scope": scope, "numbins": chunk[0][1], "items": len(chunk[0][0])})
        return acc
    for ms in chunk:
        n = len(ms)
        for k in (range(1, K + 1) if K else scopes.long_thin_bins(n)):
            acc.point(nontrivial=(n >= 2 and k >= 2))
            if scope.endswith("simple"):
                cfgs = scopes.partition_algos_for(n, k, "quick" if K <= 7 else "thorough", max(ms))
            elif scope.endswith("cg"):
                cfgs = [("cg", kw) for kw in scopes.cg_configs(all_switches=True, k=k)]
            elif scope == "long-heur":
                # cost bound of the harness: the searches with pruning switched off, ckk, snp, rnp, dp are exponential here
                cfgs = [(a, {}) for a in scopes.SIMPLE_PARTITIONERS] + [("cg", {"objective": o}) for o in scopes.CG_OBJECTIVES]
                if k == 2:
                    cfgs.append(("cbldm", {}))
            else:
                cfgs = [("ilp", {"objective": o}) for o in ("MinimizeDifference", "MaximizeSmallestSum")]
            for algo, kw in cfgs:
                items = list(scopes.scramble(ms)) if scope == "long-heur" else list(ms)
                case = {"algo": algo, "items": items, "k": k, "fmt": fmt, "out": "PartitionAndSumsTuple", "kw": kw}
                _one(acc, case)
        if ms == chunk[0]:
            acc.sample({"items": list(ms), "numbins": "1..%d" % K, "format": fmt, "scope": scope})
    return acc


def replay(case, acc):
    _one(acc, case)
