"""
C06 - reported sums and derived outputs always describe the returned bins.
Engine E1: each point is executed once per output type (ten calls) and the nine cheaper outputs are compared with what
the oracle derives from the PartitionAndSumsTuple output.
"""
from .. import repo, scopes, spaces
from ..runner import Acc
from ..judge import cfg_str, inp_str, values_of

ID = "C06"
ENGINE = "E1"
LEVEL = "model_checking"
RULE = ("every (input, size, algorithm-config) point of the partition / packing / covering small scopes is executed with all ten "
        "output types; oracle: sums[i] == total value of lists[i]; Sums equals the tuple's sums as a sequence; SortedSums, "
        "LargestSum, SmallestSum, ExtremeSums, Difference, BinCount, Partition, PartitionAndSums equal what is derived from the "
        "tuple (outputs undefined on an empty vector are skipped when there are no bins). A point is one (input, size, "
        "algorithm-config); non-trivial = the result has at least two bins with different sums.")
ASSUMPTIONS = ["bounds as listed in evidence.coverage.bounds", "literal (sequence) equality is demanded, as the statement says 'choosing a cheaper output type never changes the answer'"]


def bounds(tier):
    q = tier == "quick"
    return {"partition": f"values 0..5, 1..{5 if q else 6} items, 1..5 bins; all partitioners (cbldm also with cardinality bounds 1 and 2), cg 4 switch sets x 3 objectives, dp x 3 objectives; ilp on values 0..3, 1..4 items, 1..3 bins",
            "partition-wide": f"all multisets of 7 items over 1..{6 if q else 10}, k=3..5, ckk/snp/rnp/cg: full output vs Sums and Partition",
            "big": "partition values {0,1,2**24+1,2**31+1,2**32+3,2**40+5} 1..4(5) items k=1..3; packing B=2**32 sequences of 1..3(4) over {1,2**31-1,2**31,2**31+1,2**32-1,2**32}; covering B=2**32 with letters next to B/3, B/2",
            "packing": f"all sequences of 1..{4 if q else 5} items over 0..6 (B=6), 5 packers; multisets of 1..{7 if q else 8} items over 1..10 (B=20 and B=10) for bc/ffd/bfd",
            "covering": f"multisets of 1..{5 if q else 6} items over 1..13 (B=10) and 1..9 (B=6)"}


def tasks(tier):
    q = tier == "quick"
    ts = []
    for ch in scopes.chunk_multisets(range(0, 6), 1, 5 if q else 6, 20):
        ts.append(("partition", ch, (1, 2, 3, 4, 5)))
    for ch in scopes.chunk_multisets(range(0, 4), 1, 4, 6):
        ts.append(("partition-ilp", ch, (1, 2, 3)))
    # inputs on which the searches really iterate (first answer sub-optimal, several improvements): contents-keeping path
    for ch in scopes.chunk_multisets(range(1, 7 if q else 11), 7, 7, 60):
        ts.append(("partition-wide", ch, (3, 4, 5)))
    for ch in spaces.chunked(spaces.sequences(range(0, 7), 1, 4 if q else 5), 300):
        ts.append(("packing-seq", ch, 6))
    for B in (20, 10):
        for ch in scopes.chunk_multisets(range(1, 11), 1, 7 if q else 8, 400):
            ts.append(("packing-ms", ch, B))
    for B, N in ((10, 5 if q else 6), (6, 5 if q else 6)):
        for ch in scopes.chunk_multisets(range(1, B + 4), 1, N, 300):
            ts.append(("covering", ch, B))
    # magnitudes beyond 2**24 / 2**31 / 2**32 (a narrower number type in any output path would show here)
    for ch in scopes.chunk_multisets(scopes.BIG_VALUES, 1, 4 if q else 5, 15):
        ts.append(("partition", ch, (1, 2, 3)))
    BL = (1, 2 ** 31 - 1, 2 ** 31, 2 ** 31 + 1, 2 ** 32 - 1, 2 ** 32)
    for ch in spaces.chunked(spaces.sequences(BL, 1, 3 if q else 4), 100):
        ts.append(("packing-seq", ch, 2 ** 32))
    for ch in scopes.chunk_multisets((1, 2, 2 ** 32 // 3, 2 ** 32 // 3 + 1, 2 ** 31 - 1, 2 ** 31, 2 ** 31 + 1, 2 ** 32), 1, 4 if q else 5, 100):
        ts.append(("covering", ch, 2 ** 32))
    return ts


def _derive(sums, lists):
    sums = list(sums)
    d = {"Sums": sums, "SortedSums": sorted(sums), "BinCount": len(sums), "Partition": [list(b) for b in lists],
         "PartitionAndSums": {"sums": sums, "lists": [list(b) for b in lists]}}
    if sums:
        d["LargestSum"] = max(sums); d["SmallestSum"] = min(sums)
        d["ExtremeSums"] = (min(sums), max(sums)); d["Difference"] = max(sums) - min(sums)
    return d


def _same(a, b):
    if isinstance(a, (list, tuple)) and isinstance(b, (list, tuple)):
        return len(a) == len(b) and all(_same(x, y) for x, y in zip(a, b))
    if isinstance(a, dict) and isinstance(b, dict):
        return a.keys() == b.keys() and all(_same(a[k], b[k]) for k in a)
    return a == b


def _ten(acc, base, outs=scopes.OUTS):
    algo = base["algo"]
    case = dict(base, out="PartitionAndSumsTuple")
    obs = repo.call(case)
    acc.ran(algo)
    if obs[0] == "exc" or obs[1] is None:
        if algo == "rnp" and base.get("k", 0) >= 6:
            return False
        acc.violation(algo, cfg_str(case), inp_str(case), "raises", "a result", obs[1:], case)
        return False
    sums, lists = obs[1]
    d = obs[2]
    vals = values_of(lists, d)
    for i, b in enumerate(vals):
        if i >= len(sums) or sums[i] != sum(b):
            acc.violation(algo, cfg_str(case), inp_str(case), "sum_mismatch", f"bin {i}: {sum(b)}", list(sums), case)
            break
    if len(sums) != len(lists):
        acc.violation(algo, cfg_str(case), inp_str(case), "sums_lists_length", len(lists), len(sums), case)
    want = _derive(sums, lists)
    for o in outs:
        if o == "PartitionAndSumsTuple":
            continue
        c2 = dict(base, out=o)
        obs2 = repo.call(c2)
        acc.ran(algo)
        if o not in want:           # undefined on an empty vector
            continue
        if obs2[0] == "exc":
            acc.violation(algo, cfg_str(c2), inp_str(c2), "raises", want[o], obs2[1:], c2); continue
        if not _same(obs2[1], want[o]):
            acc.violation(algo, cfg_str(c2), inp_str(c2), "output_disagrees_with_partition", want[o], obs2[1], c2)
    acc.check()
    acc.outcome((algo, tuple(sums)))
    return len(set(sums)) >= 2


def _part_cfgs(n, k, scope):
    if scope == "partition-ilp":
        return [("ilp", {"objective": o}) for o in scopes.CG_OBJECTIVES]
    cfgs = [c for c in scopes.partition_algos_for(n, k, "quick", 5) if c[0] != "dp"]
    for o in scopes.CG_OBJECTIVES:
        for sw in (scopes.CG_SWITCHES[0], scopes.CG_SWITCHES[-1], scopes.CG_SWITCHES[2], scopes.CG_SWITCHES[5]):
            kw = {"objective": o}; kw.update(sw); cfgs.append(("cg", kw))
    if k ** n <= 1100:
        cfgs += [("dp", {"objective": o}) for o in scopes.CG_OBJECTIVES]
    if k == 2:       # the balanced partitioner under a cardinality bound (zero-valued items count as items)
        cfgs += [("cbldm", {"partition_difference": d}) for d in (1, 2)]
    return cfgs


def run_task(task):
    scope, chunk, size = task
    acc = Acc(ID, scope)
    for it in chunk:
        items = list(it)
        if scope == "partition-wide":
            for k in size:
                for algo in ("ckk", "snp", "rnp", "cg"):
                    kw = {"objective": "MinimizeDifference"} if algo == "cg" else {}
                    nt = _ten(acc, {"algo": algo, "items": items, "k": k, "kw": kw}, outs=("Sums", "Partition"))
                    acc.point(nontrivial=nt)
        elif scope.startswith("partition"):
            for k in size:
                for algo, kw in _part_cfgs(len(items), k, scope):
                    nt = _ten(acc, {"algo": algo, "items": items, "k": k, "kw": kw})
                    acc.point(nontrivial=nt)
        elif scope == "packing-seq":
            for a in scopes.PACK_ALGOS:
                acc.point(nontrivial=_ten(acc, {"algo": a, "items": items, "B": size}))
        elif scope == "packing-ms":
            for a in ("bc", "ffd", "bfd"):
                acc.point(nontrivial=_ten(acc, {"algo": a, "items": items, "B": size}))
        else:
            for a in scopes.COVER_ALGOS:
                acc.point(nontrivial=_ten(acc, {"algo": a, "items": items, "B": size}))
                if len(items) <= 4:
                    acc.point(nontrivial=_ten(acc, {"algo": a, "items": items, "B": size, "fmt": "dict_str"}))
        if it == chunk[0]:
            acc.sample({"items": items, "size": size, "scope": scope, "outputtypes": list(scopes.OUTS)})
    return acc


def replay(case, acc):
    base = {k: v for k, v in case.items() if k != "out"}
    _ten(acc, base)   # all ten output types, whichever scope found it
