"""
C11 - anytime algorithms are safe to interrupt and only ever improve.
Engine E3: for every (input, configuration) the complete set of interruption points is enumerated with a deterministic
counting clock injected through the module seam (DESIGN.md section 2, E3).
"""
import math
from collections import Counter
import numpy as np
from .. import repo, scopes, spaces, oracles as O
from ..clock import patched_clock
from ..runner import Acc

ID = "C11"
ENGINE = "E3"
LEVEL = "fault_enumeration"
RULE = ("for every multiset of the scope, every bin count, every objective and all 16 complete-greedy switch combinations: one "
        "unlimited run under a counting clock (readings 0,1,2,..) gives T = number of clock readings; then EVERY cut j in 0..T is "
        "executed with time_limit=j+0.5, which makes the limit test fire exactly at reading j+1 - this is every behaviour the "
        "algorithm can show under any monotone clock. Oracle per cut: result is the explicit no-solution value (None / CBLDM's "
        "placeholder with infinite difference) or a complete valid partition (CBLDM: obeying the cardinality bound); along j the "
        "objective value never gets worse and a solution never reverts to no-solution; complete greedy's first solution has LPT's "
        "sums (objective value with heuristic 3); j>=T equals the unlimited result, which is optimal (exhaustive oracle). "
        "CKK generator: every prefix of yields - each a valid partition, differences strictly decreasing, the last optimal. "
        "One cut per (input,config) is executed twice and must reproduce identically. A case = one (input, config, cut); "
        "non-trivial = the cut's result differs from the final result (the interruption matters).")
ASSUMPTIONS = ["the modules read the clock only through the module-global `time` (seam asserted: >=1 reading per run)",
               "monotone clock", "no wall-clock time is used anywhere in this check"]


def bounds(tier):
    q = tier == "quick"
    return {"complete greedy": f"values 0..{4 if q else 5}, 1..{5 if q else 7} items, 1..{3 if q else 4} bins, 3 objectives x 16 switch combinations, every cut",
            "cbldm": f"values 0..{5 if q else 7}, 1..{6 if q else 8} items, bounds {{1,2,default}}, every cut",
            "complete greedy, named": f"values 0..4, 2..{4 if q else 5} items given by name (names anti-correlated with values), 2..3 bins, 3 objectives x {{all switches on, all off}}, every cut",
            "complete greedy, offsets": f"letters {{b/2+7, b+1, b+5, b+6, 2b+1, 2b+8}}, b in {{1e5" + ("" if q else ", 1e6, 2**24, 1e9") + f"}}, 3..5 items, 2..3 bins, every cut",
            "cbldm, offsets and spread": f"offset letters (4 bases) 3..{5 if q else 6} items; values {{0,1,2,4,5,10,14}} 3..{5 if q else 6} items",
            "before the cuts": "an interrupted call (cut 0) followed by an unlimited call: the latter must be valid and optimal",
            "after the cuts": "an unlimited run in the same process must reproduce the first unlimited result",
            "ckk generator, dominant item": f"every multiset of 4..{5 if q else 6} values from 1..{4 if q else 5} plus one item worth their total -1/+0/+1/+3, k=3..4, every yield prefix",
            "ckk generator": f"values 0..{5 if q else 7}, 1..{6 if q else 8} items, k=2..4, every yield prefix"}


def tasks(tier):
    q = tier == "quick"
    ts = []
    for ch in scopes.chunk_multisets(range(0, 5 if q else 6), 1, 5 if q else 7, 8):
        ts.append(("cg", ch, tuple(range(1, (3 if q else 4) + 1))))
    for ch in scopes.chunk_multisets(range(0, 6 if q else 8), 1, 6 if q else 8, 40):
        ts.append(("cbldm", ch, None))
        ts.append(("ckkgen", ch, (2, 3, 4)))
    # a dominant item (about as large as all the others together) over every small remainder: for three and more bins the
    # remainder is still a partitioning problem of its own
    dom = []
    for rem in spaces.multisets(range(1, 5 if q else 6), 4, 5 if q else 6):
        for extra in (-1, 0, 1, 3):
            if sum(rem) + extra >= max(rem):
                dom.append(tuple(sorted(rem + (sum(rem) + extra,), reverse=True)))
    for ch in spaces.chunked(dom, 40):
        ts.append(("ckkgen", ch, (3, 4)))
    for ch in scopes.chunk_multisets(range(0, 5), 2, 4 if q else 5, 8):
        ts.append(("cg-named", ch, (2, 3)))
    for ch in spaces.chunked(scopes.offset_multisets(3, 5, scopes.OFFSET_BASES[:1] if q else scopes.OFFSET_BASES), 8):
        ts.append(("cg-offset", ch, (2, 3)))
    for ch in spaces.chunked(scopes.offset_multisets(3, 5 if q else 6), 40):
        ts.append(("cbldm", ch, None))
    for ch in scopes.chunk_multisets((0, 1, 2, 4, 5, 10, 14), 3, 5 if q else 6, 40):
        ts.append(("cbldm", ch, None))
    return ts


# ---------------------------------------------------------------- complete greedy

def _valid(items, k, bins):
    """bins = (sums, lists) from BinnerKeepingContents -> problem string or None"""
    try:
        sums, lists = bins
        sums = [float(s) for s in sums]; lists = [list(b) for b in lists]
    except Exception:
        return f"malformed {bins!r}"[:120]
    if len(lists) != k or len(sums) != k:
        return f"{len(lists)} bins instead of {k}"
    if Counter(x for b in lists for x in b) != Counter(items):
        return f"items not conserved: {lists}"
    if any(sums[i] != sum(lists[i]) for i in range(k)):
        return f"sums {sums} do not describe {lists}"
    return None


_NAMES = [None]      # name -> value when the items are presented by name (scope cg-named)


def _run_cg(items, k, kw, limit):
    with patched_clock(repo.cg_mod) as clk:
        try:
            d = _NAMES[0]
            binner = repo.prtpy.BinnerKeepingContents() if d is None else repo.prtpy.BinnerKeepingContents(d.__getitem__)
            r = repo.cg_mod.anytime(binner, k, list(items) if d is None else list(d.keys()), time_limit=limit, **kw)
            r = None if r is None else ([float(s) for s in r[0]], [list(b) if d is None else [d[x] for x in b] for b in r[1]])
        except Exception as e:
            r = ("exc", f"{type(e).__name__}: {e}")
    return r, clk.readings


def _cg(acc, ms, k, all_switches=True):
    items = list(ms)
    lpt = O.lpt_sums(items, k)
    for kwspec in scopes.cg_configs(all_switches=all_switches):
        spec = kwspec["objective"]
        kw = repo.build_kwargs(kwspec)
        cfg = ";".join(f"{a}={b}" for a, b in sorted(kwspec.items()))
        base = {"part": "cg", "items": items, "k": k, "kw": kwspec, "named": _NAMES[0] is not None, "all_switches": all_switches}
        inp = f"{items};k={k}"
        # an interrupted call FIRST, then an unlimited one: whatever the interrupted call left behind must not reach the second
        _run_cg(items, k, kw, 0.5)
        first, _ = _run_cg(items, k, kw, np.inf)
        acc.ran("cg", 2)
        if first is None or first[0] == "exc" or _valid(items, k, first) or O.objective_value(spec, first[0]) != O.optimum_value(spec, tuple(ms), k):
            acc.violation("cg", cfg, inp, "unlimited_run_after_an_interrupted_run_not_optimal", O.optimum_value(spec, tuple(ms), k), first, dict(base, cut=None))
            continue
        final, T = _run_cg(items, k, kw, np.inf)
        acc.ran("cg")
        if T < 1:
            acc.note("seam_lost"); continue
        if final is None or isinstance(final, tuple) and final and final[0] == "exc" or _valid(items, k, final):
            acc.violation("cg", cfg, inp, "unlimited_run_invalid", "a valid partition", final if final is None or final[0] == "exc" else _valid(items, k, final), dict(base, cut=None))
            continue
        fval = O.objective_value(spec, final[0])
        want = O.optimum_value(spec, tuple(ms), k)
        if fval != want:
            acc.violation("cg", cfg, inp, "unlimited_not_optimal", want, fval, dict(base, cut=None))
        prev_val = None; seen_solution = False
        for j in range(0, T + 1):
            r, _ = _run_cg(items, k, kw, j + 0.5)
            acc.ran("cg"); acc.check()
            case = dict(base, cut=j)
            if r is None:
                acc.point(nontrivial=True)
                if seen_solution:
                    acc.violation("cg", cfg, inp + f";cut={j}", "solution_reverts_to_none", "a solution", None, case)
                continue
            if r[0] == "exc":
                acc.point(nontrivial=True)
                acc.violation("cg", cfg, inp + f";cut={j}", "raises_when_interrupted", "None or a valid partition", r[1], case); continue
            bad = _valid(items, k, r)
            if bad:
                acc.point(nontrivial=True)
                acc.violation("cg", cfg, inp + f";cut={j}", "invalid_partition_when_interrupted", "None or a valid partition", bad, case); continue
            val = O.objective_value(spec, r[0])
            acc.point(nontrivial=(val != fval))
            if not seen_solution:
                seen_solution = True
                if kwspec["use_heuristic_3"] and spec == "MinimizeLargestSum":
                    if val != max(lpt):
                        acc.violation("cg", cfg, inp + f";cut={j}", "first_solution_not_lpt_value", max(lpt), val, case)
                elif sorted(r[0]) != sorted(float(v) for v in lpt):
                    acc.violation("cg", cfg, inp + f";cut={j}", "first_solution_not_lpt", sorted(lpt), sorted(r[0]), case)
            if prev_val is not None and val > prev_val:
                acc.violation("cg", cfg, inp + f";cut={j}", "gets_worse_with_more_time", f"<= {prev_val}", val, case)
            prev_val = val
            if j >= T and (sorted(r[0]) != sorted(final[0])):
                acc.violation("cg", cfg, inp + f";cut={j}", "full_budget_differs_from_unlimited", final[0], r[0], case)
            acc.outcome((spec, val - fval))
        # determinism of replay: one cut twice
        j = T // 2
        a, _ = _run_cg(items, k, kw, j + 0.5); b, _ = _run_cg(items, k, kw, j + 0.5)
        acc.ran("cg", 2)
        if a != b:
            acc.violation("cg", cfg, inp + f";cut={j}", "replay_not_deterministic", a, b, dict(base, cut=j))
        # an unlimited run AFTER the interrupted ones (same process) must still be the unlimited result
        again, _ = _run_cg(items, k, kw, np.inf)
        acc.ran("cg")
        if again != final:
            acc.violation("cg", cfg, inp, "unlimited_run_after_interrupted_runs_differs", final, again, dict(base, cut=None))


# ---------------------------------------------------------------- cbldm

def _run_cbldm(items, d, limit):
    kw = {} if d is None else {"partition_difference": d}
    with patched_clock(repo.cbldm_mod) as clk:
        try:
            r = repo.cbldm_mod.cbldm(repo.prtpy.BinnerKeepingContents(), 2, list(items), time_limit=limit, **kw)
            r = ([float(s) for s in r[0]], [list(b) if isinstance(b, list) else b for b in r[1]])
        except Exception as e:
            r = ("exc", f"{type(e).__name__}: {e}")
    return r, clk.readings


def _is_placeholder(r):
    try:
        return math.isinf(abs(r[0][0] - r[0][1]))
    except Exception:
        return False


def _cbldm(acc, ms):
    items = list(ms)
    for d in (1, 2, None):
        base = {"part": "cbldm", "items": items, "d": d}
        cfg = f"partition_difference={d}"
        inp = f"{items}"
        _run_cbldm(items, d, 0.5)
        first, _ = _run_cbldm(items, d, np.inf)
        acc.ran("cbldm", 2)
        if first[0] == "exc" or _is_placeholder(first) or _valid(items, 2, first) or abs(first[0][0] - first[0][1]) != O.opt_two_way(tuple(ms), d):
            acc.violation("cbldm", cfg, inp, "unlimited_run_after_an_interrupted_run_not_optimal", O.opt_two_way(tuple(ms), d), first, dict(base, cut=None))
            continue
        final, T = _run_cbldm(items, d, np.inf)
        acc.ran("cbldm")
        if T < 1:
            acc.note("seam_lost"); continue
        want = O.opt_two_way(tuple(ms), d)
        if final[0] == "exc" or _is_placeholder(final) or _valid(items, 2, final) or abs(final[0][0] - final[0][1]) != want:
            acc.violation("cbldm", cfg, inp, "unlimited_not_optimal", want, final, dict(base, cut=None)); continue
        prev = None; seen = False
        for j in range(0, T + 1):
            r, _ = _run_cbldm(items, d, j + 0.5)
            acc.ran("cbldm"); acc.check()
            case = dict(base, cut=j)
            if r[0] == "exc":
                acc.point(nontrivial=True)
                acc.violation("cbldm", cfg, inp + f";cut={j}", "raises_when_interrupted", "placeholder or valid partition", r[1], case); continue
            if _is_placeholder(r):
                acc.point(nontrivial=True)
                if seen:
                    acc.violation("cbldm", cfg, inp + f";cut={j}", "solution_reverts_to_none", "a solution", r, case)
                continue
            bad = _valid(items, 2, r)
            if not bad and d is not None and abs(len(r[1][0]) - len(r[1][1])) > d:
                bad = f"cardinality bound {d} broken: {r[1]}"
            if bad:
                acc.point(nontrivial=True)
                acc.violation("cbldm", cfg, inp + f";cut={j}", "invalid_partition_when_interrupted", "placeholder or valid partition", bad, case); continue
            seen = True
            val = abs(r[0][0] - r[0][1])
            acc.point(nontrivial=(val != want))
            if prev is not None and val > prev:
                acc.violation("cbldm", cfg, inp + f";cut={j}", "gets_worse_with_more_time", f"<= {prev}", val, case)
            prev = val
            if j >= T and val != want:
                acc.violation("cbldm", cfg, inp + f";cut={j}", "full_budget_differs_from_unlimited", want, val, case)
            acc.outcome(("cbldm", d, val - want))
        j = T // 2
        a, _ = _run_cbldm(items, d, j + 0.5); b, _ = _run_cbldm(items, d, j + 0.5)
        acc.ran("cbldm", 2)
        if a != b:
            acc.violation("cbldm", cfg, inp + f";cut={j}", "replay_not_deterministic", a, b, dict(base, cut=j))
        again, _ = _run_cbldm(items, d, np.inf)
        acc.ran("cbldm")
        if again != final:
            acc.violation("cbldm", cfg, inp, "unlimited_run_after_interrupted_runs_differs", final, again, dict(base, cut=None))


# ---------------------------------------------------------------- ckk generator

def _ckkgen(acc, ms, k):
    items = list(ms)
    base = {"part": "ckkgen", "items": items, "k": k}
    inp = f"{items};k={k}"
    want = O.opt_partition(tuple(ms), k)["diff"]
    for kind in ("contents", "sums"):
        binner = repo.prtpy.BinnerKeepingContents() if kind == "contents" else repo.prtpy.BinnerKeepingSums()
        prev = None; n = 0
        try:
            for y in repo.ckk_mod.generator(binner, k, list(items)):
                n += 1
                acc.ran("ckkgen"); acc.check()
                if kind == "contents":
                    bad = _valid(items, k, y)
                    sums = [float(s) for s in y[0]]
                else:
                    sums = [float(s) for s in y]
                    bad = None if (len(sums) == k and sum(sums) == sum(items)) else f"sums {sums}"
                if bad:
                    acc.point(nontrivial=True)
                    acc.violation("ckkgen", kind, inp + f";yield={n}", "invalid_partition_yielded", "a valid partition", bad, base); continue
                diff = max(sums) - min(sums)
                acc.point(nontrivial=(diff != want))
                if prev is not None and not diff < prev:
                    acc.violation("ckkgen", kind, inp + f";yield={n}", "not_strictly_better", f"< {prev}", diff, base)
                prev = diff
        except Exception as e:
            acc.violation("ckkgen", kind, inp, "raises", "yields", f"{type(e).__name__}: {e}", base); continue
        if n == 0:
            acc.violation("ckkgen", kind, inp, "no_yield", "at least one partition", 0, base)
        elif prev != want:
            acc.violation("ckkgen", kind, inp, "last_yield_not_optimal", want, prev, base)
        acc.outcome(("gen", k, n))


def run_task(task):
    scope, chunk, ks = task
    acc = Acc(ID, scope)
    for ms in chunk:
        if scope == "cg":
            for k in ks:
                _cg(acc, ms, k)
        elif scope == "cg-named":
            _, _, d = repo.present(list(ms), "dict_str")       # names anti-correlated with the values
            _NAMES[0] = d
            try:
                for k in ks:
                    _cg(acc, tuple(d.values()), k, all_switches=False)
            finally:
                _NAMES[0] = None
        elif scope == "cg-offset":
            for k in ks:
                _cg(acc, ms, k, all_switches=False)
        elif scope == "cbldm":
            _cbldm(acc, ms)
        else:
            for k in ks:
                _ckkgen(acc, ms, k)
    acc.sample({"scope": scope, "items": list(chunk[0]), "k": list(ks) if ks else 2, "cuts": "0..T (T measured per run)"})
    O.opt_partition.cache_clear()
    return acc


def replay(case, acc):
    if case["part"] == "cg":
        if case.get("named"):
            _, _, d = repo.present(list(case["items"]), "dict_str")
            _NAMES[0] = d
        try:
            _cg(acc, tuple(case["items"]), case["k"], all_switches=case.get("all_switches", True))
        finally:
            _NAMES[0] = None
    elif case["part"] == "cbldm":
        _cbldm(acc, tuple(case["items"]))
    else:
        _ckkgen(acc, tuple(case["items"]), case["k"])


def repro(v):
    c = v.get("case") or {}
    return ("# interruption replay: ./check C11 --replay <this file>\n"
            f"# part={c.get('part')} items={c.get('items')} k={c.get('k')} kw={c.get('kw')} d={c.get('d')} cut={c.get('cut')} "
            "(time_limit = cut+0.5 under a clock that returns 0,1,2,... on successive readings)")
