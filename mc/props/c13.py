"""
C13 - search bounds are admissible and search enumerators are complete.
Engine E1 on the three documented extension points:
 (a) Objective.lower_bound   (b) InExclusionBinTree.generate_tree   (c) Binner.all_combinations
"""
from collections import Counter
from itertools import product, permutations, combinations
import numpy as np
from .. import repo, spaces, oracles as O
from ..runner import Acc

ID = "C13"
ENGINE = "E1"
LEVEL = "model_checking"
RULE = ("(a) every sum vector with k entries from 0..S (all orders) x remaining totals 0..R x {list, tuple, array} x sorted-flag: "
        "LB <= min objective over ALL compositions of the remaining total into k non-negative integers (unit items are the most "
        "favourable remaining items), LB(flag on) == LB(flag off), LB of a permuted vector == LB of the sorted one. "
        "(b) every named item list with values 0..3 x every half-integer window [lb,ub]: the yields, as a multiset of name sets, "
        "equal all 2^n subsets filtered by the window (each exactly once, nothing else). "
        "(c) every pair of bins-arrays with k bins over named contents (equal sums with different contents included), both "
        "managers: the yields, as a multiset of canonical pairings, equal the set of canonical pairings over all k! permutations, "
        "and each yielded array's sums match its contents. A point is one (vector, total) / (items, window) / (pair of arrays); "
        "non-trivial = (a) remaining total > 0 and k >= 2, (b) window neither empty nor everything, (c) at least two distinct pairings.")
ASSUMPTIONS = ["integer sums and totals", "bounds as listed in evidence.coverage.bounds"]

OBJS = ("MaximizeSmallestSum", "MinimizeLargestSum", "MinimizeDifference",
        "MaximizeKSmallestSums(2)", "MinimizeKLargestSums(2)")      # the last two inherit the base-class bound


def bounds(tier):
    q = tier == "quick"
    return {"lower_bound": (f"k<=4, sums 0..5, remaining total 0..8" if q else "k<=4: sums 0..7, remaining 0..14; k=5: sums 0..7, remaining 0..10; k=6: sums 0..4, remaining 0..10")
                           + "; plus vectors near 2**32 (k=2..3" + ("" if q else "..4") + "); three containers, flag on/off, all permutations for k<=3; five objectives",
            "generate_tree": f"values 0..3, 1..{5 if q else 7} items" + ("" if q else "; values {0,1,2,5,9}, 1..6 items") + ", all half-integer windows from -0.5 to total+0.5",
            "all_combinations": f"k<=3 with bin contents in {{(),(1),(2),(1,1)}}, k=4 with {{(),(1),(2)}}" + (", k=5 with {(),(1),(2)} (first array sorted)" if q else ", k=5 with {(),(1),(2)}, k=6 with {(),(1)}") + "; both managers; the contents manager with distinct named items (exactly once) and with plain repeated values (completeness)"}


def tasks(tier):
    q = tier == "quick"
    ts = []
    for k in range(1, (4 if q else 6) + 1):
        vecs = list(spaces.multisets(range(0, 6 if q else (8 if k <= 5 else 5)), k, k))
        for ch in spaces.chunked(vecs, 20):
            ts.append(("lower_bound", k, ch, 8 if q else (14 if k <= 4 else 10)))
    # sum vectors of large magnitude with small gaps (remaining totals that just reach / just miss levelling them)
    for k in (2, 3) if q else (2, 3, 4):
        base = 2 ** 32
        vecs = [tuple(base + v for v in ms) for ms in spaces.multisets(range(0, 4), k, k)] + \
               [tuple((base if i else 0) + v for i, v in enumerate(sorted(ms))) for ms in spaces.multisets(range(0, 3), k, k)]
        for ch in spaces.chunked(vecs, 10):
            ts.append(("lower_bound", k, ch, 6))
    for ch in spaces.chunked(spaces.multisets(range(0, 4), 1, 5 if q else 7), 6):
        ts.append(("generate_tree", None, ch, None))
    if not q:
        for ch in spaces.chunked(spaces.multisets((0, 1, 2, 5, 9), 1, 6), 6):
            ts.append(("generate_tree", None, ch, None))
    combos = [(1, 4), (2, 4), (3, 4), (4, 3)] + ([(5, -3)] if q else [(5, 3), (6, 2)])
    for k, nopt in combos:
        if nopt < 0:       # quick: five bins, first array over sorted choices only (the pairing set is symmetric in the first array's order)
            nopt = -nopt
            firsts = [tuple(c) for c in spaces.multisets(range(nopt), k, k)]
        else:
            firsts = list(product(range(nopt), repeat=k))
        for ch in spaces.chunked(firsts, 4 if k >= 4 else 16):
            ts.append(("all_combinations", k, ch, nopt))
    return ts


# ---------------------------------------------------------------- (a)

def _true_min(spec, vec, rem):
    best = None
    k = len(vec)
    for comp in spaces.compositions(rem, k):
        s = [a + b for a, b in zip(vec, comp)]
        v = O.objective_value(spec, s)
        if best is None or v < best: best = v
    return best


def _lb(acc, spec, vec, rem, flag):
    o = repo.objective(spec)
    acc.ran("lower_bound")
    try:
        return float(o.lower_bound(vec, rem, are_sums_in_ascending_order=flag))
    except Exception as e:
        return f"{type(e).__name__}: {e}"


def _check_lb(acc, k, vec_sorted, R):
    vec_sorted = tuple(sorted(vec_sorted))
    for rem in range(0, R + 1):
        acc.point(nontrivial=(rem > 0 and k >= 2))
        for spec in OBJS:
            tm = _true_min(spec, vec_sorted, rem)
            ref = None
            for mk, nm in ((list, "list"), (tuple, "tuple"), (lambda v: np.array(v, dtype=float), "array")):
                for flag in (True, False):
                    lb = _lb(acc, spec, mk(vec_sorted), rem, flag)
                    case = {"part": "lower_bound", "spec": spec, "vec": list(vec_sorted), "rem": rem, "container": nm, "flag": flag}
                    cfg = f"{spec};{nm};sorted_flag={flag}"
                    if isinstance(lb, str):
                        acc.violation("lower_bound", cfg, f"{list(vec_sorted)};rem={rem}", "raises", "a bound", lb, case); continue
                    if lb > tm:
                        acc.violation("lower_bound", cfg, f"{list(vec_sorted)};rem={rem}", "inadmissible", f"<= {tm}", lb, case)
                    if ref is None: ref = lb
                    elif lb != ref:
                        acc.violation("lower_bound", cfg, f"{list(vec_sorted)};rem={rem}", "depends_on_flag_or_container", ref, lb, case)
            if k <= 3:
                for perm in set(permutations(vec_sorted)):
                    lb = _lb(acc, spec, list(perm), rem, False)
                    if lb != ref:
                        case = {"part": "lower_bound", "spec": spec, "vec": list(perm), "rem": rem, "container": "list", "flag": False, "ref": list(vec_sorted)}
                        acc.violation("lower_bound", f"{spec};list;sorted_flag=False", f"{list(perm)};rem={rem}", "depends_on_order", ref, lb, case)
            acc.check()
            acc.outcome((spec, tm - ref if isinstance(ref, float) else ref))


# ---------------------------------------------------------------- (b)

def _check_tree(acc, values):
    values = list(values)
    names = repo.names_for(values, "str")
    d = dict(zip(names, values))
    total = sum(values)
    n = len(values)
    subsets = []
    for r in range(n + 1):
        for c in combinations(names, r):
            subsets.append((frozenset(c), sum(d[x] for x in c)))
    halves = [h / 2 for h in range(-1, 2 * total + 2)]
    for lb in halves:
        for ub in halves:
            want = Counter(s for s, v in subsets if lb <= v <= ub)
            t = repo.tree_mod.InExclusionBinTree(items=list(names), valueof=d.__getitem__, upper_bound=ub, lower_bound=lb)
            acc.ran("generate_tree")
            case = {"part": "generate_tree", "values": values, "lb": lb, "ub": ub}
            try:
                ys = [list(y) for y in t.generate_tree()]
            except Exception as e:
                acc.violation("generate_tree", "", f"{values};[{lb},{ub}]", "raises", "subsets", f"{type(e).__name__}: {e}", case); continue
            got = Counter(frozenset(y) for y in ys)
            dup_inside = [y for y in ys if len(set(y)) != len(y)]
            if got != want or dup_inside:
                acc.violation("generate_tree", "", f"{values};[{lb},{ub}]", "wrong_enumeration",
                              f"missing={[sorted(s) for s in (want - got)]}", f"extra={[sorted(s) for s in (got - want)]} dupitems={dup_inside}", case)
            acc.check()
            acc.point(nontrivial=(0 < sum(want.values()) < len(subsets)))
            # the same items as plain values (equal values are then indistinguishable items): one yield per INDEX subset
            if len(set(values)) < n:
                wantv = Counter(tuple(sorted(values[i] for i in c)) for r in range(n + 1) for c in combinations(range(n), r)
                                if lb <= sum(values[i] for i in c) <= ub)
                t = repo.tree_mod.InExclusionBinTree(items=list(values), valueof=lambda x: x, upper_bound=ub, lower_bound=lb)
                acc.ran("generate_tree")
                try:
                    gotv = Counter(tuple(sorted(y)) for y in t.generate_tree())
                except Exception as e:
                    acc.violation("generate_tree", "plain-values", f"{values};[{lb},{ub}]", "raises", "subsets", f"{type(e).__name__}: {e}", dict(case, plain=True)); continue
                if gotv != wantv:
                    acc.violation("generate_tree", "plain-values", f"{values};[{lb},{ub}]", "wrong_enumeration",
                                  f"missing={sorted((wantv - gotv).elements())[:4]}", f"extra={sorted((gotv - wantv).elements())[:4]}", dict(case, plain=True))
    acc.outcome(("tree", n, total))


# ---------------------------------------------------------------- (c)

OPTS = ((), (1,), (2,), (1, 1))


def _build(binner, d, prefix, choice):
    """an array whose bin i holds fresh named items with the values OPTS[choice[i]]"""
    bins = binner.new_bins(len(choice))
    for i, c in enumerate(choice):
        for j, v in enumerate(OPTS[c]):
            name = f"{prefix}{i}{'abc'[j]}"
            d[name] = v
            binner.add_item_to_bin(bins, name, i)
    return bins


def _check_comb(acc, k, first, nopt):
    for second in product(range(nopt), repeat=k):
        d = {}
        bk = repo.prtpy.BinnerKeepingContents(lambda x: d[x])
        b1 = _build(bk, d, "p", first); b2 = _build(bk, d, "q", second)
        case = {"part": "all_combinations", "k": k, "first": list(first), "second": list(second)}
        inp = f"{[OPTS[c] for c in first]}+{[OPTS[c] for c in second]}"
        # contents manager
        want = set()
        for perm in permutations(range(k)):
            want.add(tuple(sorted(tuple(sorted(b1[1][perm[i]] + b2[1][i])) for i in range(k))))
        acc.ran("all_combinations.contents")
        try:
            ys = list(bk.all_combinations(b1, b2))
        except Exception as e:
            acc.violation("all_combinations", "contents", inp, "raises", "pairings", f"{type(e).__name__}: {e}", case); ys = None
        if ys is not None:
            got = Counter(tuple(sorted(tuple(sorted(b)) for b in y[1])) for y in ys)
            if got != Counter(want):
                acc.violation("all_combinations", "contents", inp, "wrong_enumeration",
                              f"{len(want)} distinct pairings", f"{sum(got.values())} yields, repeated={[p for p, c in got.items() if c > 1][:2]}, missing={list(set(want) - set(got))[:2]}, extra={list(set(got) - set(want))[:2]}", case)
            for y in ys:
                if [float(s) for s in y[0]] != [float(sum(d[x] for x in b)) for b in y[1]]:
                    acc.violation("all_combinations", "contents", inp, "sums_do_not_match_contents", "sums of the yielded lists", [list(map(float, y[0])), y[1]], case); break
        # contents manager, items given as plain values: equal items are equal objects, so two different pairings can consist of
        # the same *set* of bins with other multiplicities (five bins: A+C == B+B).  Under value equality "exactly once" is not
        # well defined (the 1 of the first array and the 1 of the second are the same object), so only completeness and "nothing
        # else" are judged here: every distinct pairing, as a multiset of value-multisets, is yielded at least once.
        bp = repo.prtpy.BinnerKeepingContents(lambda x: x)
        p1 = bp.new_bins(k); p2 = bp.new_bins(k)
        for arr, choice in ((p1, first), (p2, second)):
            for i, c in enumerate(choice):
                for v in OPTS[c]:
                    bp.add_item_to_bin(arr, v, i)
        wantp = set(tuple(sorted(tuple(sorted(p1[1][perm[i]] + p2[1][i])) for i in range(k))) for perm in permutations(range(k)))
        acc.ran("all_combinations.contents-plain")
        try:
            gotp = set(tuple(sorted(tuple(sorted(b)) for b in y[1])) for y in bp.all_combinations(p1, p2))
        except Exception as e:
            acc.violation("all_combinations", "contents;plain-values", inp, "raises", "pairings", f"{type(e).__name__}: {e}", dict(case, plain=True)); gotp = None
        if gotp is not None and gotp != wantp:
            acc.violation("all_combinations", "contents;plain-values", inp, "incomplete_enumeration",
                          f"{len(wantp)} distinct pairings", f"missing={list(wantp - gotp)[:2]}, extra={list(gotp - wantp)[:2]}", dict(case, plain=True))
        # sums manager
        bs = repo.prtpy.BinnerKeepingSums(lambda x: d[x])
        s1 = np.array(b1[0]); s2 = np.array(b2[0])
        wants = set(tuple(sorted(float(s1[perm[i]] + s2[i]) for i in range(k))) for perm in permutations(range(k)))
        acc.ran("all_combinations.sums")
        try:
            ys = list(bs.all_combinations(s1, s2))
        except Exception as e:
            acc.violation("all_combinations", "sums", inp, "raises", "pairings", f"{type(e).__name__}: {e}", case); ys = None
        if ys is not None:
            got = Counter(tuple(sorted(float(v) for v in y)) for y in ys)
            if got != Counter(wants):
                acc.violation("all_combinations", "sums", inp, "wrong_enumeration", f"{len(wants)} distinct sum vectors",
                              f"{sum(got.values())} yields, repeated={[p for p, c in got.items() if c > 1][:2]}, missing={list(wants - set(got))[:2]}, extra={list(set(got) - wants)[:2]}", case)
        # an enumeration suspended after its first yield while another one runs to completion on the SAME manager object
        # (nested loops / zip over two enumerations): the resumed one must still yield every pairing exactly once
        if k <= 3:
            for nm, mgr, a1, a2, canon, wanted in (
                    ("contents", bk, b1, b2, lambda y: tuple(sorted(tuple(sorted(b)) for b in y[1])), Counter(want)),
                    ("sums", bs, s1, s2, lambda y: tuple(sorted(float(v) for v in y)), Counter(wants))):
                acc.ran("all_combinations.nested")
                try:
                    g = mgr.all_combinations(a1, a2)
                    seen = []
                    for t, y in enumerate(g):
                        seen.append(canon(y))
                        if t == 0:
                            for _ in mgr.all_combinations(a2, a1):
                                pass
                    got = Counter(seen)
                except Exception as e:
                    acc.violation("all_combinations", nm + ";nested", inp, "raises", "pairings", f"{type(e).__name__}: {e}", dict(case, nested=True)); continue
                if got != wanted:
                    acc.violation("all_combinations", nm + ";nested", inp, "wrong_enumeration_when_another_enumeration_runs_in_between",
                                  f"{len(wanted)} distinct, each once", f"{sum(got.values())} yields, repeated={[p for p, c in got.items() if c > 1][:2]}, missing={list(set(wanted) - set(got))[:2]}", dict(case, nested=True))
        acc.check()
        acc.point(nontrivial=(len(want) >= 2))
        acc.outcome((k, len(want), len(wants)))


def run_task(task):
    part, k, chunk, extra = task
    acc = Acc(ID, part)
    for x in chunk:
        if part == "lower_bound":
            _check_lb(acc, k, x, extra)
        elif part == "generate_tree":
            _check_tree(acc, x)
        else:
            _check_comb(acc, k, x, extra)
    acc.sample({"part": part, "first_element": list(chunk[0]), "k": k})
    return acc


def replay(case, acc):
    if case["part"] == "lower_bound":
        _check_lb(acc, len(case["vec"]), case.get("ref", case["vec"]), case["rem"])
    elif case["part"] == "generate_tree":
        _check_tree(acc, case["values"])
    else:
        _check_comb(acc, case["k"], tuple(case["first"]), max(max(case["first"]), max(case["second"])) + 1)
