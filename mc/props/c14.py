"""
C14 - simple heuristics compute exactly what their textbook definitions prescribe.
Engine E1 with executable reference models (mc/models.py) run in lock-step with the implementation on EVERY input.
"""
from collections import Counter
from fractions import Fraction
from .. import repo, scopes, spaces, models as M
from ..runner import Acc
from ..judge import cfg_str, inp_str

ID = "C14"
ENGINE = "E1"
LEVEL = "model_checking"
RULE = ("every input of the scopes is given both to the implementation and to a reference model transcribed from the documented "
        "rule (LPT, cyclic dealing, first/best bin that fits, next-fit-decreasing cover, bidirectional filling, three-class "
        "filling with thresholds B/2 and B/3 as letters of the alphabet); oracle: equal multisets of bin sums, and for round-robin, "
        "the first-fit variants and the three covers equal multisets of bins-as-value-multisets. traces_validated_against_impl "
        "counts the (input, algorithm) pairs on which model and implementation were both run and compared. "
        "A point is one (input, size); non-trivial = the implementation's result has at least two non-empty bins.")
ASSUMPTIONS = ["the reference models are the trusted base; they were written from the docstrings / cited papers, not from the code",
               "bounds as listed in evidence.coverage.bounds"]


def bounds(tier):
    q = tier == "quick"
    return {"greedy/roundrobin": f"values 0..6, 1..{6 if q else 7} items, 1..5 bins, descending and ascending presentation",
            "ff/bf": f"all sequences of 1..{5 if q else 6} items over 0..6 (B=6); dyadic eighths, 1..4 items (B=1)",
            "ffd/bfd": f"all multisets of 1..{7 if q else 8} items over 0..B for B in (6,12)",
            "covers": f"all multisets of 1..{6 if q else 7} items over 1..B+3 for B in (6,12) + 1..{8 if q else 10} items over (1,2,3,4,6) B=12 and (1,2,3) B=6"}


def tasks(tier):
    q = tier == "quick"
    ts = []
    for ch in scopes.chunk_multisets(range(0, 7), 1, 6 if q else 7, 200):
        ts.append(("partition", ch, (1, 2, 3, 4, 5)))
    for ch in spaces.chunked(spaces.sequences(range(0, 7), 1, 5 if q else 6), 3000):
        ts.append(("fit-seq", ch, 6))
    eighths = [Fraction(i, 8) for i in range(9)]
    for ch in spaces.chunked(spaces.sequences(eighths, 1, 4), 1500):
        ts.append(("fit-dyadic", ch, 1))
    for B in (6, 12):
        for ch in scopes.chunk_multisets(range(0, B + 1), 1, 7 if q else 8, 1500):
            ts.append(("dec", ch, B))
        for ch in scopes.chunk_multisets(range(1, B + 4), 1, 6 if q else 7, 1500):
            ts.append(("cover", ch, B))
    for alpha, B in (((1, 2, 3, 4, 6), 12), ((1, 2, 3), 6)):
        for ch in scopes.chunk_multisets(alpha, 7, 8 if q else 10, 500):
            ts.append(("cover", ch, B))
    return ts


def _canon(bins):
    return Counter(tuple(sorted(b)) for b in bins if True)


def _cmp(acc, algo, items, size, model):
    fam = repo.family(algo)
    case = {"algo": algo, "items": list(items), ("k" if fam == "partition" else "B"): size}
    obs = repo.call(case)
    acc.ran(algo)
    want = model(list(items), size)
    if obs[0] == "exc":
        acc.violation(algo, cfg_str(case), inp_str(case), "raises", want, obs[1:], case); return 0
    sums, lists = obs[1]
    acc.check()
    ws = Counter(sum(b) for b in want)
    gs = Counter(sums)
    if ws != gs:
        acc.violation(algo, cfg_str(case), inp_str(case), "sums_differ_from_reference", sorted(ws.elements()), sorted(gs.elements()), case)
    elif algo in M.EXACT_BINS and _canon(want) != _canon(lists):
        acc.violation(algo, cfg_str(case), inp_str(case), "bins_differ_from_reference", want, lists, case)
    acc.outcome((algo, tuple(sorted(gs.elements()))))
    return sum(1 for b in lists if b)


def run_task(task):
    scope, chunk, size = task
    acc = Acc(ID, scope)
    for it in chunk:
        if scope == "partition":
            for k in size:
                n = 0
                for a, m in M.PARTITION_MODELS.items():
                    n = max(n, _cmp(acc, a, it, k, m))
                    _cmp(acc, a, it[::-1], k, m)
                acc.point(nontrivial=(n >= 2))
        elif scope in ("fit-seq", "fit-dyadic"):
            items = [float(v) for v in it] if scope == "fit-dyadic" else list(it)
            n = 0
            for a in (("ff", "bf") if scope == "fit-seq" else ("ff", "bf", "ffd", "bfd")):
                n = max(n, _cmp(acc, a, items, size, M.PACK_MODELS[a]))
            acc.point(nontrivial=(n >= 2))
        elif scope == "dec":
            n = max(_cmp(acc, a, it, size, M.PACK_MODELS[a]) for a in ("ffd", "bfd"))
            acc.point(nontrivial=(n >= 2))
        else:
            n = max(_cmp(acc, a, it, size, m) for a, m in M.COVER_MODELS.items())
            acc.point(nontrivial=(n >= 2))
        if it == chunk[0]:
            acc.sample({"input": [str(v) for v in it], "size": size, "scope": scope})
    return acc


def replay(case, acc):
    algo = case["algo"]
    model = {**M.PARTITION_MODELS, **M.PACK_MODELS, **M.COVER_MODELS}[algo]
    _cmp(acc, algo, case["items"], case.get("k", case.get("B")), model)
