"""
C14 - simple heuristics compute exactly what their textbook definitions prescribe.
Engine E1 with executable reference models (mc/models.py) run in lock-step with the implementation on EVERY input.
"""
from collections import Counter
from fractions import Fraction
from .. import repo, scopes, spaces, models as M
from ..runner import Acc
from ..judge import cfg_str, inp_str

ID = "C14"
ENGINE = "E1"
LEVEL = "model_checking"
RULE = ("every input of the scopes is given both to the implementation and to a reference model transcribed from the documented "
        "rule (LPT, cyclic dealing, first/best bin that fits, next-fit-decreasing cover, bidirectional filling, three-class "
        "filling with thresholds B/2 and B/3 as letters of the alphabet); oracle: equal multisets of bin sums, and for round-robin, "
        "the first-fit variants and the three covers equal multisets of bins-as-value-multisets. traces_validated_against_impl "
        "counts the (input, algorithm) pairs on which model and implementation were both run and compared. "
        "A point is one (input, size); non-trivial = the implementation's result has at least two non-empty bins.")
ASSUMPTIONS = ["the reference models are the trusted base; they were written from the docstrings / cited papers, not from the code",
               "bounds as listed in evidence.coverage.bounds"]


def bounds(tier):
    q = tier == "quick"
    return {"greedy/roundrobin": f"values 0..6, 1..{6 if q else 9} items, 1..5 bins, descending and ascending presentation",
            "ff/bf": f"all sequences of 1..{5 if q else 8} items over 0..6 (B=6); dyadic eighths, 1..4 items (B=1)",
            "ffd/bfd": f"all multisets of 1..{7 if q else 10} items over 0..B for B in (6,12)",
            "long-thin": "partition: 9..15(24) items over {1,2}, 9..12(16) over {1,2,3}, 9..11(13) over {0,1,5},{2,3,7}, bins {2,3,4,5,7,n,n+1}; packing: 9..14(24) items over {1,2} B=5, {1,2,3} B=7, {2,3,5} B=10, {0,1,4} B=4 in 6 fixed orders; the same multisets as covers with B+2 and 3B",
            "big": "partition values {0,1,2**24+1,2**31+1,2**32+3,2**40+5}; packing B=2**32 letters {1,2**31-1,2**31,2**31+1,2**32-1,2**32} (and divided by 2**32, B=1); covers B in {2**32, 2**32+2, 3*2**31} with letters next to B/3, B/2",
            "count-sweep": f"every number of bins: packing inputs needing exactly m bins and covers filling exactly m bins for every m in 1..{40 if q else 142}; partition into every k in 1..{24 if q else 72} with k-1, k, k+1, 2k+1 items",
            "halves": "fit heuristics on multiples of 1/2 around B/2 and B for B=7 and B=10: all sequences of 1..4(5), multisets of 5..7(8) in 6 orders",
            "fractional bin size": "covers with B=7.5 (items 1..10) and B=10.5 (items 1..12)",
            "planted covers": "B=12,13,9,101,99: every unordered pair of patterns x multiplicities (40,24)" + ("" if q else ",(100,20),(7,150)") + " (up to ~600 items)",
            "covers": f"all multisets of 1..{6 if q else 9} items over 1..B+3 for B in (6,12) + 1..{8 if q else 12} items over (1,2,3,4,6) B=12 and (1,2,3) B=6"}


LONG_PACK = [((1, 2), 9, 24, 5), ((1, 2, 3), 9, 16, 7), ((2, 3, 5), 9, 14, 10), ((0, 1, 4), 9, 14, 4)]
BIG_LETTERS = (1, 2 ** 31 - 1, 2 ** 31, 2 ** 31 + 1, 2 ** 32 - 1, 2 ** 32)


def tasks(tier):
    q = tier == "quick"
    ts = []
    for ch in scopes.chunk_multisets(range(0, 7), 1, 6 if q else 9, 200):
        ts.append(("partition", ch, (1, 2, 3, 4, 5)))
    for ch in spaces.chunked(spaces.sequences(range(0, 7), 1, 5 if q else 8), 3000):
        ts.append(("fit-seq", ch, 6))
    eighths = [Fraction(i, 8) for i in range(9)]
    for ch in spaces.chunked(spaces.sequences(eighths, 1, 4), 1500):
        ts.append(("fit-dyadic", ch, 1))
    for B in (6, 12):
        for ch in scopes.chunk_multisets(range(0, B + 1), 1, 7 if q else 10, 1500):
            ts.append(("dec", ch, B))
        for ch in scopes.chunk_multisets(range(1, B + 4), 1, 6 if q else 9, 1500):
            ts.append(("cover", ch, B))
    for alpha, B in (((1, 2, 3, 4, 6), 12), ((1, 2, 3), 6)):
        for ch in scopes.chunk_multisets(alpha, 7, 8 if q else 12, 500):
            ts.append(("cover", ch, B))
    # ---- beyond the dense scopes: many items over tiny alphabets, large magnitudes, large planted covers
    for ch in spaces.chunked(scopes.long_thin_multisets(tier), 60):
        ts.append(("partition-long", ch, None))
    for ch in scopes.chunk_multisets(scopes.BIG_VALUES, 1, 5 if q else 8, 100):
        ts.append(("partition", ch, (1, 2, 3, 4)))
    for alpha, lo, hi, B in LONG_PACK:
        for ch in scopes.chunk_multisets(alpha, lo, hi if not q else min(hi, lo + 5), 100):
            ts.append(("fit-long", ch, B))
            ts.append(("cover", ch, B + 2))
            ts.append(("cover", ch, 3 * B))
    for ch in spaces.chunked(spaces.sequences(BIG_LETTERS, 1, 4 if q else 7), 500):
        ts.append(("fit-seq4", ch, 2 ** 32))
    for ch in spaces.chunked(spaces.sequences([Fraction(v, 2 ** 32) for v in BIG_LETTERS], 1, 4), 500):
        ts.append(("fit-dyadic", ch, 1))
    for Bc in scopes.BIG_BINSIZES:
        for ch in scopes.chunk_multisets(scopes.threshold_letters(Bc), 1, 5 if q else 8, 400):
            ts.append(("cover", ch, Bc))
    for Bf, top in ((7.5, 10), (10.5, 12)):
        for ch in scopes.chunk_multisets(range(1, top + 1), 1, 5 if q else 8, 400):
            ts.append(("cover", ch, Bf))
    for Bh, letters in scopes.HALVES.items():
        for ch in spaces.chunked(spaces.sequences(letters, 1, 4 if q else 7), 600):
            ts.append(("fit-seq4", ch, Bh))
        for ch in scopes.chunk_multisets(letters, 5, 7 if q else 10, 600):
            ts.append(("fit-long", ch, Bh))
    for ch in spaces.chunked((items for items, _, _ in scopes.count_sweep_packing(tier)), 12):
        ts.append(("fit-long", ch, 10))
    for ch in spaces.chunked((items for items, _, _ in scopes.count_sweep_cover(tier)), 12):
        ts.append(("cover", ch, 10))
    for ch in spaces.chunked(scopes.count_sweep_partition(tier), 20):
        ts.append(("partition-k", ch, None))
    from .c10 import PLANT_BIG
    for Bb, lettersb in PLANT_BIG:
        pats = spaces.partitions_of(Bb, lettersb, 4)
        big = []
        for i, pth in enumerate(pats):
            for r in pats[i:]:
                for a, b in (((40, 24),) if q else ((40, 24), (100, 20), (7, 150))):
                    big.append(tuple(sorted(pth * a + r * b, reverse=True)))
        for ch in spaces.chunked(big, 40):
            ts.append(("cover", ch, Bb))
    return ts


def _canon(bins):
    return Counter(tuple(sorted(b)) for b in bins if True)


def _cmp(acc, algo, items, size, model, fmt="list"):
    fam = repo.family(algo)
    case = {"algo": algo, "items": list(items), ("k" if fam == "partition" else "B"): size, "fmt": fmt}
    obs = repo.call(case)
    acc.ran(algo)
    want = model(list(items), size)
    if obs[0] == "exc":
        acc.violation(algo, cfg_str(case), inp_str(case), "raises", want, obs[1:], case); return 0
    sums, lists = obs[1]
    if obs[2] is not None:
        try:
            lists = [[obs[2][x] for x in b] for b in lists]       # names -> values
        except Exception:
            acc.violation(algo, cfg_str(case), inp_str(case), "unknown_names_in_result", want, lists, case); return 0
    acc.check()
    ws = Counter(sum(b) for b in want)
    gs = Counter(sums)
    if ws != gs:
        acc.violation(algo, cfg_str(case), inp_str(case), "sums_differ_from_reference", sorted(ws.elements()), sorted(gs.elements()), case)
    elif algo in M.EXACT_BINS and _canon(want) != _canon(lists):
        acc.violation(algo, cfg_str(case), inp_str(case), "bins_differ_from_reference", want, lists, case)
    acc.outcome((algo, tuple(sorted(gs.elements()))))
    return sum(1 for b in lists if b)


def run_task(task):
    scope, chunk, size = task
    acc = Acc(ID, scope)
    for it in chunk:
        if scope == "partition":
            for k in size:
                n = 0
                for a, m in M.PARTITION_MODELS.items():
                    n = max(n, _cmp(acc, a, it, k, m))
                    _cmp(acc, a, it[::-1], k, m)
                    if len(it) <= 5:       # the rule is about values: identifiers + a value function must give the same bins
                        _cmp(acc, a, it[::-1], k, m, "array_names")
                        _cmp(acc, a, it, k, m, "dict_str")
                acc.point(nontrivial=(n >= 2))
        elif scope == "partition-long":
            n = 0
            for k in scopes.long_thin_bins(len(it)):
                for a, m in M.PARTITION_MODELS.items():
                    n = max(n, _cmp(acc, a, scopes.scramble(it), k, m))
            acc.point(nontrivial=(n >= 2))
        elif scope == "partition-k":
            items, k = it
            n = 0
            for a, m in M.PARTITION_MODELS.items():
                n = max(n, _cmp(acc, a, items, k, m))
            acc.point(nontrivial=(n >= 2))
        elif scope == "fit-long":
            n = 0
            for order in spaces.fixed_orders(it):
                for a in ("ff", "bf"):
                    n = max(n, _cmp(acc, a, order, size, M.PACK_MODELS[a]))
            for a in ("ffd", "bfd"):
                n = max(n, _cmp(acc, a, scopes.scramble(it), size, M.PACK_MODELS[a]))
            acc.point(nontrivial=(n >= 2))
        elif scope in ("fit-seq", "fit-dyadic", "fit-seq4"):
            items = [float(v) for v in it] if scope == "fit-dyadic" else list(it)
            n = 0
            for a in (("ff", "bf") if scope == "fit-seq" else ("ff", "bf", "ffd", "bfd")):
                n = max(n, _cmp(acc, a, items, size, M.PACK_MODELS[a]))
            acc.point(nontrivial=(n >= 2))
        elif scope == "dec":
            n = max(_cmp(acc, a, it, size, M.PACK_MODELS[a]) for a in ("ffd", "bfd"))
            if len(it) <= 5:
                for a in ("ffd", "bfd"):
                    _cmp(acc, a, it[::-1], size, M.PACK_MODELS[a], "array_names")
                    _cmp(acc, a, it, size, M.PACK_MODELS[a], "dict_int")
            acc.point(nontrivial=(n >= 2))
        else:
            n = max(_cmp(acc, a, it, size, m) for a, m in M.COVER_MODELS.items())
            if len(it) <= 5 and size <= 12:
                for a, m in M.COVER_MODELS.items():
                    _cmp(acc, a, it[::-1], size, m, "array_names")
                    _cmp(acc, a, it, size, m, "dict_int")
            acc.point(nontrivial=(n >= 2))
        if it == chunk[0]:
            acc.sample({"input": [str(v) for v in it][:40], "size": size, "scope": scope})
    return acc


def replay(case, acc):
    algo = case["algo"]
    model = {**M.PARTITION_MODELS, **M.PACK_MODELS, **M.COVER_MODELS}[algo]
    _cmp(acc, algo, case["items"], case.get("k", case.get("B")), model)
