"""
C20 - built-in objectives compute their documented quantity on every sum vector.
Engine E1; the oracle re-implements the six definitions on a plain list and never calls prtpy's.
"""
from fractions import Fraction
from itertools import product
import numpy as np
from .. import repo, spaces
from ..runner import Acc

ID = "C20"
ENGINE = "E1"
LEVEL = "model_checking"
RULE = ("every vector in {0..4}^k, k<=K (all orders, not only sorted ones) x {list, tuple, numpy array} x the five sum-based "
        "objectives with every k-parameter 1..k+2 x (k<=3) every weight vector in {1,2,3}^k; on sorted vectors additionally the "
        "declared-sorted fast path; oracle: the documented definitions (-min, max, max-min, -sum of the j smallest, sum of the j "
        "largest, -min of sum/weight). The weighted objective may refuse the sorted flag but must not return a wrong value. "
        "A point is one (vector, container); non-trivial = the vector is not constant.")
ASSUMPTIONS = ["non-negative integer sums", "k-parameters >= 1"]


def bounds(tier):
    return {"vectors": f"{{0..4}}^k for k=1..{5 if tier == 'quick' else 6}", "weights": "{1,2,3}^k for k<=3", "k-parameter": "1..k+2"}


def tasks(tier):
    K = 5 if tier == "quick" else 6
    ts = []
    for k in range(1, K + 1):
        for ch in spaces.chunked(product(range(5), repeat=k), 400):
            ts.append((k, ch))
    return ts


def _defs(k):
    d = [("MaximizeSmallestSum", lambda s: -min(s)), ("MinimizeLargestSum", lambda s: max(s)),
         ("MinimizeDifference", lambda s: max(s) - min(s))]
    for j in range(1, k + 3):
        d.append((f"MaximizeKSmallestSums({j})", lambda s, j=j: -sum(sorted(s)[:j])))
        d.append((f"MinimizeKLargestSums({j})", lambda s, j=j: sum(sorted(s, reverse=True)[:j])))
    return d


def _val(o, vec, flag):
    try:
        return float(o.value_to_minimize(vec, are_sums_in_ascending_order=flag)) if flag is not None else float(o.value_to_minimize(vec))
    except Exception as e:
        return f"{type(e).__name__}: {e}"


def _check(acc, v):
    k = len(v)
    is_sorted = list(v) == sorted(v)
    for mk, nm in ((list, "list"), (tuple, "tuple"), (lambda x: np.array(x, dtype=float), "array")):
        acc.point(nontrivial=(len(set(v)) > 1))
        for spec, f in _defs(k):
            o = repo.objective(spec)
            want = float(f(list(v)))
            for flag in ((None, False, True) if is_sorted else (None, False)):
                got = _val(o, mk(v), flag)
                acc.ran("objective")
                if got != want:
                    case = {"spec": spec, "vec": list(v), "container": nm, "flag": flag}
                    acc.violation("objective", f"{spec};{nm};sorted_flag={flag}", str(list(v)),
                                  "raises" if isinstance(got, str) else "wrong_value", want, got, case)
            acc.outcome((spec, want))
        if k <= 3:
            for w in product((1, 2, 3), repeat=k):
                spec = f"MaximizeSmallestWeightedSum({list(w)})"
                o = repo.obj.MaximizeSmallestWeightedSum(list(w))
                want = -float(min(Fraction(s, ww) for s, ww in zip(v, w)))
                for flag in ((None, False, True) if is_sorted else (None, False)):
                    got = _val(o, mk(v), flag)
                    acc.ran("objective")
                    if flag is True and isinstance(got, str) and got.startswith("ValueError"):
                        acc.note("weighted_sorted_flag_refused"); continue
                    if got != want:
                        case = {"spec": spec, "vec": list(v), "container": nm, "flag": flag, "weights": list(w)}
                        acc.violation("objective", f"MaximizeSmallestWeightedSum;{nm};sorted_flag={flag}", f"{list(v)};w={list(w)}",
                                      "raises" if isinstance(got, str) else "wrong_value", want, got, case)
        acc.check()


def run_task(task):
    k, chunk = task
    acc = Acc(ID, f"k={k}")
    for v in chunk:
        _check(acc, v)
    acc.sample({"vector": list(chunk[0]), "k": k})
    return acc


def replay(case, acc):
    _check(acc, tuple(case["vec"]))
