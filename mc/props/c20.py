"""
C20 - built-in objectives compute their documented quantity on every sum vector.
Engine E1; the oracle re-implements the six definitions on a plain list and never calls prtpy's.
"""
from fractions import Fraction
from itertools import product
import numpy as np
from .. import repo, spaces
from ..runner import Acc

ID = "C20"
ENGINE = "E1"
LEVEL = "model_checking"
RULE = ("every vector in {0..4}^k, k<=K (all orders, not only sorted ones) x {list, tuple, numpy float array; for k<=4 also a list of numpy integers and an integer array} x the five sum-based "
        "objectives with every k-parameter 1..k+2 x (k<=3) every weight vector in {1,2,3}^k; on sorted vectors additionally the "
        "declared-sorted fast path; oracle: the documented definitions (-min, max, max-min, -sum of the j smallest, sum of the j "
        "largest, -min of sum/weight). The weighted objective may refuse the sorted flag but must not return a wrong value. "
        "Also: long vectors (up to 65 entries) over 2-3 letters in three orders; vectors of magnitude 2**31..2**50; one container object "
        "mutated in place between evaluations with the objective objects reused (a memo keyed on identity would go stale); and every "
        "sequence of up to three calls (value_to_minimize / lower_bound on vectors of different lengths) on one objective object "
        "followed by evaluations that must still equal the definition. "
        "A point is one (vector, container) / one mutation step / one call history; non-trivial = the vector is not constant.")
ASSUMPTIONS = ["non-negative integer sums", "k-parameters >= 1"]


def bounds(tier):
    q = tier == "quick"
    return {"vectors": f"{{0..4}}^k for k=1..{5 if q else 8}", "weights": "{1,2,3}^k for k<=3; for k=2 also nine fractional weight vectors that agree pairwise to two decimals, evaluated in sequence", "k-parameter": "1..k+2",
            "long vectors": "all multisets over {4,7} with " + ("8,15,16,17,24" if q else "8,12,15,16,17,20,24,31,32,33,40,64,65") + " entries, over {0,1,2} and {1,5,9} up to " + ("17" if q else "24") + " entries, in ascending, descending and riffled order",
            "big": "{0, 1, 2**31+1, 2**32+3, 2**50+1}^k, k<=4",
            "in place": f"one list / one array object walked through {{0..3}}^k, k<={4 if q else 5}, by single-entry mutations, objective objects reused, every evaluation twice",
            "histories": "every sequence of <=3 calls (value_to_minimize on 8 vectors of 1..6 entries given as list, as float array and (3 of them) as tuple, sorted fast path, lower_bound on 6 vectors x 2 totals: 33 operations) on one object of each of 11 objectives, then all 8 vectors evaluated as lists and 4 as arrays"}


CLOSE_WEIGHTS = ((1 / 3, 2 / 3), (0.33, 0.67), (0.333, 0.667), (0.334, 0.666), (0.004, 0.001), (0.001, 0.004), (0.0049, 0.0011), (2.0, 1.0), (2.004, 1.004))
LONG_ALPHABETS = ((4, 7), (0, 1, 2), (1, 5, 9))
BIG = (0, 1, 2 ** 31 + 1, 2 ** 32 + 3, 2 ** 50 + 1)


def tasks(tier):
    q = tier == "quick"
    K = 5 if q else 8
    ts = []
    for k in range(1, K + 1):
        for ch in spaces.chunked(product(range(5), repeat=k), 400):
            ts.append((k, ch))
    # long vectors (many bins), three orders each; every k-parameter 1..n+2
    for alpha in LONG_ALPHABETS:
        for n in ((8, 15, 16, 17, 24) if q else (8, 12, 15, 16, 17, 20, 24, 31, 32, 33, 40, 64, 65)):
            if len(alpha) == 3 and n > (17 if q else 24):
                continue
            vecs = []
            for ms in spaces.multisets(alpha, n, n):
                a = sorted(ms)
                for v in {tuple(a), tuple(reversed(a)), tuple(a[1::2] + a[0::2])}:
                    vecs.append(v)
            for ch in spaces.chunked(vecs, 30):
                ts.append((f"long-{n}", ch))
    for k in range(1, 5):
        for ch in spaces.chunked(product(BIG, repeat=k), 200):
            ts.append((f"big-{k}", ch))
    # the same container object mutated in place between evaluations; the same objective objects throughout
    for k in (1, 2, 3, 4) if q else (1, 2, 3, 4, 5):
        ts.append(("inplace", [k]))
    # call histories on one objective object: value_to_minimize / lower_bound on vectors of different lengths
    for i in range(len(_hist_objects())):
        ts.append(("history", [i]))
    return ts


def _hist_objects():
    return ["MaximizeSmallestSum", "MinimizeLargestSum", "MinimizeDifference", "MaximizeKSmallestSums(1)", "MaximizeKSmallestSums(2)",
            "MaximizeKSmallestSums(3)", "MaximizeKSmallestSums(5)", "MinimizeKLargestSums(1)", "MinimizeKLargestSums(2)",
            "MinimizeKLargestSums(3)", "MinimizeKLargestSums(5)"]


HIST_VECS = ((2,), (0, 3), (3, 0), (1, 1), (4, 9, 6), (8, 5, 6), (3, 1, 4, 1, 5, 9), (2, 2, 2, 2))


def _history(acc, idx):
    """all sequences of <= 3 calls on ONE objective object, then value_to_minimize on every vector, against the definition"""
    spec = _hist_objects()[idx]
    f = dict(_defs(4))[spec]
    ops = [("v", v, fl) for v in HIST_VECS for fl in (False,)] + [("v", tuple(sorted(v)), True) for v in HIST_VECS[4:6]] + \
          [("lb", v, rem) for v in HIST_VECS[:6] for rem in (0, 10)] + \
          [("va", v, None) for v in HIST_VECS] + [("vt", v, None) for v in HIST_VECS[:5:2]]    # arrays / tuples, flag left to its default
    for depth in (1, 2, 3):
        for seq in product(range(len(ops)), repeat=depth):
            o = repo.objective(spec)
            for j in seq:
                kind, v, extra = ops[j]
                try:
                    if kind == "v":
                        o.value_to_minimize(list(v), are_sums_in_ascending_order=extra)
                    elif kind == "va":
                        o.value_to_minimize(np.array(v, dtype=float))
                    elif kind == "vt":
                        o.value_to_minimize(tuple(v))
                    else:
                        o.lower_bound(list(v), extra, are_sums_in_ascending_order=False)
                    acc.ran("objective")
                except Exception:
                    pass
            acc.point(nontrivial=(depth > 1))
            for v, mk in [(v, list) for v in HIST_VECS] + [(v, lambda x: np.array(x, dtype=float)) for v in HIST_VECS[::2]]:
                got = _val(o, mk(v), None)
                acc.ran("objective")
                want = float(f(list(v)))
                if got != want:
                    case = {"part": "history", "object": idx, "ops": [list(map(_js, ops[j])) for j in seq], "vec": list(v)}
                    acc.violation("objective", f"{spec};after-history", f"{[ops[j] for j in seq]} then {list(v)}",
                                  "raises" if isinstance(got, str) else "wrong_value_after_history", want, got, case)
                    return
            acc.check()
    acc.outcome((spec, "history"))


def _js(x):
    return list(x) if isinstance(x, tuple) else x


def _inplace(acc, k):
    """one list object and one array object walk through {0..3}^k by single-entry mutations; every objective (the same objects
    throughout) is evaluated after every mutation"""
    objs = [(spec, repo.objective(spec), f) for spec, f in _defs(k)]
    for mk, nm in ((list, "list"), (lambda x: np.array(x, dtype=float), "array")):
        cur = mk([0] * k)
        prev = [0] * k
        for v in product(range(4), repeat=k):
            for i in range(k):
                if prev[i] != v[i]:
                    cur[i] = v[i]
            prev = list(v)
            acc.point(nontrivial=(len(set(v)) > 1))
            for spec, o, f in objs:
                for rep in (0, 1):
                    got = _val(o, cur, None)
                    acc.ran("objective")
                    want = float(f(list(v)))
                    if got != want:
                        case = {"part": "inplace", "k": k}
                        acc.violation("objective", f"{spec};{nm};mutated-in-place", str(list(v)),
                                      "raises" if isinstance(got, str) else "wrong_value_after_in_place_change", want, got, case)
                        return
            acc.check()
    acc.outcome(("inplace", k))


def _defs(k):
    d = [("MaximizeSmallestSum", lambda s: -min(s)), ("MinimizeLargestSum", lambda s: max(s)),
         ("MinimizeDifference", lambda s: max(s) - min(s))]
    for j in range(1, k + 3):
        d.append((f"MaximizeKSmallestSums({j})", lambda s, j=j: -sum(sorted(s)[:j])))
        d.append((f"MinimizeKLargestSums({j})", lambda s, j=j: sum(sorted(s, reverse=True)[:j])))
    return d


def _val(o, vec, flag):
    try:
        return float(o.value_to_minimize(vec, are_sums_in_ascending_order=flag)) if flag is not None else float(o.value_to_minimize(vec))
    except Exception as e:
        return f"{type(e).__name__}: {e}"


def _check(acc, v):
    k = len(v)
    is_sorted = list(v) == sorted(v)
    for mk, nm in ((list, "list"), (tuple, "tuple"), (lambda x: np.array(x, dtype=float), "array"),
                   (lambda x: [np.int64(e) for e in x], "list-of-numpy-ints"), (lambda x: np.array(x, dtype=np.int64), "int-array")):
        if nm in ("list-of-numpy-ints", "int-array") and (k > 4 or max(v) >= 2 ** 62):
            continue
        acc.point(nontrivial=(len(set(v)) > 1))
        for spec, f in _defs(k):
            o = repo.objective(spec)
            want = float(f(list(v)))
            for flag in ((None, False, True) if is_sorted else (None, False)):
                got = _val(o, mk(v), flag)
                acc.ran("objective")
                if got != want:
                    case = {"spec": spec, "vec": list(v), "container": nm, "flag": flag}
                    acc.violation("objective", f"{spec};{nm};sorted_flag={flag}", str(list(v)),
                                  "raises" if isinstance(got, str) else "wrong_value", want, got, case)
            acc.outcome((spec, want))
        if k == 2 and nm == "list":
            # weight vectors that differ only from the third decimal on, evaluated one after the other on the same sums
            # (a description or key that rounds the weights would confuse them)
            for w in CLOSE_WEIGHTS:
                o = repo.obj.MaximizeSmallestWeightedSum(list(w))
                want = -min(float(s) / ww for s, ww in zip(v, w))
                got = _val(o, mk(v), None)
                acc.ran("objective")
                if got != want:
                    case = {"spec": "weighted", "vec": list(v), "container": nm, "flag": None, "weights": list(w)}
                    acc.violation("objective", f"MaximizeSmallestWeightedSum;{nm};close-weights", f"{list(v)};w={list(w)}",
                                  "raises" if isinstance(got, str) else "wrong_value", want, got, case)
        if k <= 3:
            for w in product((1, 2, 3), repeat=k):
                spec = f"MaximizeSmallestWeightedSum({list(w)})"
                o = repo.obj.MaximizeSmallestWeightedSum(list(w))
                want = -float(min(Fraction(s, ww) for s, ww in zip(v, w)))
                for flag in ((None, False, True) if is_sorted else (None, False)):
                    got = _val(o, mk(v), flag)
                    acc.ran("objective")
                    if flag is True and isinstance(got, str) and got.startswith("ValueError"):
                        acc.note("weighted_sorted_flag_refused"); continue
                    if got != want:
                        case = {"spec": spec, "vec": list(v), "container": nm, "flag": flag, "weights": list(w)}
                        acc.violation("objective", f"MaximizeSmallestWeightedSum;{nm};sorted_flag={flag}", f"{list(v)};w={list(w)}",
                                      "raises" if isinstance(got, str) else "wrong_value", want, got, case)
        acc.check()


def run_task(task):
    k, chunk = task
    if k == "inplace":
        acc = Acc(ID, "inplace"); _inplace(acc, chunk[0]); acc.sample({"part": "inplace", "k": chunk[0]}); return acc
    if k == "history":
        acc = Acc(ID, "history"); _history(acc, chunk[0]); acc.sample({"part": "history", "object": _hist_objects()[chunk[0]]}); return acc
    acc = Acc(ID, f"k={k}" if isinstance(k, int) else k.split("-")[0])
    for v in chunk:
        _check(acc, v)
    acc.sample({"vector": list(chunk[0]) if len(chunk[0]) < 12 else f"{len(chunk[0])} entries", "k": k})
    return acc


def replay(case, acc):
    if case.get("part") == "inplace":
        _inplace(acc, case["k"])
    elif case.get("part") == "history":
        _history(acc, case["object"])
    else:
        _check(acc, tuple(case["vec"]))
