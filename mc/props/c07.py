"""
C07 - the answer does not depend on how the items are presented.
Engine E1: every point is presented in five formats (list, numpy array, dict with string names, dict with integer
names, names + valueof); names are distinct and anti-correlated with the values.
"""
from collections import Counter
from .. import repo, scopes, spaces
from ..runner import Acc
from ..judge import judge_partition, judge_packing, judge_cover, cfg_str, inp_str

ID = "C07"
ENGINE = "E1"
LEVEL = "model_checking"
RULE = ("every point of the partition / packing / covering small scopes is executed in five input formats; oracle: the multiset "
        "of bin sums is identical across formats, and each named result is a valid partition / packing / cover of the *names* "
        "(conservation, feasibility) whose values reproduce the reported sums. Names are distinct, unrelated to the values: "
        "string names sort in the opposite order of the values, integer names (1000+rank) exceed every bin size. "
        "A point is one (input, size, algorithm-config); non-trivial = at least two distinct values among the items.")
ASSUMPTIONS = ["bounds as listed in evidence.coverage.bounds", "equal multisets of sums are required, not equal bin contents (ties may be broken by position only)"]


def bounds(tier):
    q = tier == "quick"
    return {"partition": f"values 0..5, 1..{5 if q else 7} items, 1..4 bins; all partitioners, cg with 4 configs x 3 objectives, dp/ilp with 3 objectives (ilp: 1..4 items, values 0..3)",
            "packing": f"all sequences of 1..{4 if q else 6} items over 0..6 (B=6) for ff/bf/ffd/bfd/bc; multisets of 1..{6 if q else 8} items over 1..10 (B=20) for bc/ffd/bfd",
            "big": "partition values {0,1,2**24+1,2**31+1,2**32+3,2**40+5} 1..4(5) items k=2..3; packing B=2**32 sequences of 1..3(4) over {1,2**31-1,2**31,2**31+1,2**32-1,2**32}; covering B=2**32 with letters next to B/3, B/2",
            "halves": "multiples of 1/2: partition multisets of 1..4(5) items over (0.5,1,1.5,2.5,3) k=2..3; packing sequences of 1..3(4) over (0.5,..,4.5) B=5; covering multisets of 1..4(5), B=5",
            "magnitude for the heuristics": "offset letters for b in {1e5, 1e6}, 5..6(7) items, and 6..7(8) items over nine three-digit values; greedy/roundrobin/multifit/kk, k=2..3, all formats",
            "long": "9..15(24) items over {1,2}, 9..12(16) over {1,2,3}, 9..11(13) over {0,1,5},{2,3,7}, non-sorted: simple partitioners + cg (k=2,3,n+1), 5 packers and 3 covers with B=2*max+1",
            "covering": f"multisets of 1..{5 if q else 7} items over 1..13 (B=10) and 1..9 (B=6)"}


def tasks(tier):
    q = tier == "quick"
    ts = []
    for ch in scopes.chunk_multisets(range(0, 6), 1, 5 if q else 7, 25):
        ts.append(("partition", ch, (1, 2, 3, 4)))
    for ch in scopes.chunk_multisets(range(0, 4), 1, 4, 12):
        ts.append(("partition-ilp", ch, (1, 2, 3)))
    for ch in spaces.chunked(spaces.sequences(range(0, 7), 1, 4 if q else 6), 400):
        ts.append(("packing-seq", ch, 6))
    for ch in scopes.chunk_multisets(range(1, 11), 1, 6 if q else 8, 300):
        ts.append(("packing-ms", ch, 20))
    for B, N in ((10, 5 if q else 7), (6, 5 if q else 7)):
        for ch in scopes.chunk_multisets(range(1, B + 4), 1, N, 400):
            ts.append(("covering", ch, B))
    # large magnitudes (a format-dependent number type - int32 array, float32 sums - would show here) and many items
    for ch in scopes.chunk_multisets(scopes.BIG_VALUES, 1, 4 if q else 6, 25):
        ts.append(("partition", ch, (2, 3)))
    BL = (1, 2 ** 31 - 1, 2 ** 31, 2 ** 31 + 1, 2 ** 32 - 1, 2 ** 32)
    for ch in spaces.chunked(spaces.sequences(BL, 1, 3 if q else 5), 200):
        ts.append(("packing-seq", ch, 2 ** 32))
    for ch in scopes.chunk_multisets((1, 2, 2 ** 32 // 3, 2 ** 32 // 3 + 1, 2 ** 31 - 1, 2 ** 31, 2 ** 31 + 1, 2 ** 32), 1, 4 if q else 6, 200):
        ts.append(("covering", ch, 2 ** 32))
    for ch in spaces.chunked(scopes.long_thin_multisets(tier), 40):
        ts.append(("long", ch, None))
    for ch in spaces.chunked(scopes.offset_multisets(5, 6 if q else 7, scopes.OFFSET_BASES[:2]), 60):
        ts.append(("offset-simple", ch, (2, 3)))
    for ch in scopes.chunk_multisets((164, 276, 290, 298, 547, 585, 618, 678, 701), 6, 7 if q else 8, 60):
        ts.append(("offset-simple", ch, (2, 3)))
    # values that are not integers (multiples of 1/2, exact in every format): a presentation must not round them
    for ch in scopes.chunk_multisets((0.5, 1, 1.5, 2.5, 3), 1, 4 if q else 6, 25):
        ts.append(("partition", ch, (2, 3)))
    for ch in spaces.chunked(spaces.sequences((0.5, 1.5, 2.5, 3, 3.5, 4.5), 1, 3 if q else 5), 100):
        ts.append(("packing-seq", ch, 5))
    for ch in scopes.chunk_multisets((0.5, 1.5, 2.5, 3, 3.5, 4.5), 1, 4 if q else 6, 100):
        ts.append(("covering", ch, 5))
    return ts


def _five(acc, base, judge, **jkw):
    """run `base` in all five formats; judge each; compare sums multisets."""
    algo = base["algo"]
    ref = None
    for fmt in repo.FORMATS:
        case = dict(base, fmt=fmt)
        obs = repo.call(case)
        acc.ran(algo)
        bad = False
        for kind, exp, got in judge(case, obs, **jkw):
            bad = True
            acc.violation(algo, cfg_str(case), inp_str(case), kind, exp, got, case)
        if bad or obs[0] != "ok":
            continue
        sums = Counter(obs[1][0])
        if ref is None:
            ref = (fmt, sums)
        elif sums != ref[1]:
            acc.violation(algo, cfg_str(case), inp_str(case), "sums_differ_from_" + ref[0],
                          sorted(ref[1].elements()), sorted(sums.elements()), case)
    acc.check()
    if ref: acc.outcome((algo, tuple(sorted(ref[1].elements()))))


def _part_cfgs(n, k, scope):
    if scope == "partition-ilp":
        return [("ilp", {"objective": o}) for o in scopes.CG_OBJECTIVES]
    cfgs = scopes.partition_algos_for(n, k, "quick", 5)
    for o in scopes.CG_OBJECTIVES:
        for sw in (scopes.CG_SWITCHES[0], scopes.CG_SWITCHES[-1], scopes.CG_SWITCHES[2], scopes.CG_SWITCHES[5]):
            kw = {"objective": o}; kw.update(sw); cfgs.append(("cg", kw))
    cfgs = [c for c in cfgs if c[0] != "dp"]
    if k ** n <= 1100:
        cfgs += [("dp", {"objective": o}) for o in scopes.CG_OBJECTIVES]
    return cfgs


def run_task(task):
    scope, chunk, size = task
    acc = Acc(ID, scope)
    for it in chunk:
        items = list(it)
        nt = len(set(items)) >= 2
        if scope == "offset-simple":
            for k in size:
                for algo in scopes.SIMPLE_PARTITIONERS:
                    acc.point(nontrivial=nt)
                    _five(acc, {"algo": algo, "items": list(scopes.scramble(it)), "k": k, "kw": {}}, judge_partition, allow_fewer=(algo == "multifit"))
        elif scope.startswith("partition"):
            for k in size:
                for algo, kw in _part_cfgs(len(items), k, scope):
                    if algo == "rnp" and k >= 6: continue
                    acc.point(nontrivial=nt)
                    _five(acc, {"algo": algo, "items": items, "k": k, "kw": kw}, judge_partition, allow_fewer=(algo == "multifit"))
        elif scope == "long":
            sc = list(scopes.scramble(it))
            n = len(sc)
            for k in (2, 3, n + 1):
                for algo, kw in [(a, {}) for a in scopes.SIMPLE_PARTITIONERS] + [("cg", {"objective": "MinimizeDifference"})]:
                    acc.point(nontrivial=nt)
                    _five(acc, {"algo": algo, "items": sc, "k": k, "kw": kw}, judge_partition, allow_fewer=(algo == "multifit"))
            B = 2 * max(it) + 1
            for a in scopes.PACK_ALGOS:
                acc.point(nontrivial=nt)
                _five(acc, {"algo": a, "items": sc, "B": B}, judge_packing, zeros_optional=(a == "bc"))
            if min(it) > 0:
                for a in scopes.COVER_ALGOS:
                    acc.point(nontrivial=nt)
                    _five(acc, {"algo": a, "items": sc, "B": B}, judge_cover)
        elif scope == "packing-seq":
            for a in scopes.PACK_ALGOS:
                acc.point(nontrivial=nt)
                _five(acc, {"algo": a, "items": items, "B": size}, judge_packing, zeros_optional=(a == "bc"))
        elif scope == "packing-ms":
            for a in ("bc", "ffd", "bfd"):
                acc.point(nontrivial=nt)
                _five(acc, {"algo": a, "items": items, "B": size}, judge_packing, zeros_optional=(a == "bc"))
        else:
            for a in scopes.COVER_ALGOS:
                acc.point(nontrivial=nt)
                _five(acc, {"algo": a, "items": items, "B": size}, judge_cover)
        if it == chunk[0]:
            _, _, d = repo.present(items, "dict_str"); _, _, d2 = repo.present(items, "dict_int")
            acc.sample({"values": items, "dict_str": d, "dict_int": {str(k): v for k, v in d2.items()}, "scope": scope})
    return acc


def replay(case, acc):
    base = {k: v for k, v in case.items() if k != "fmt"}
    fam = repo.family(case["algo"])
    if fam == "partition":
        _five(acc, base, judge_partition, allow_fewer=(case["algo"] == "multifit"))
    elif fam == "pack":
        _five(acc, base, judge_packing, zeros_optional=(case["algo"] == "bc"))
    else:
        _five(acc, base, judge_cover)
