"""
C18 - results respect problem symmetries; exact solvers agree beyond oracle size.
Engine E1 with metamorphic / differential oracles (no hand-written expected value).
"""
from collections import Counter
from .. import repo, scopes, spaces
from ..runner import Acc
from ..judge import cfg_str, inp_str

ID = "C18"
ENGINE = "E1"
LEVEL = "model_checking"
RULE = ("perm: every distinct permutation of every multiset of the scope - exact algorithms keep their optimal value, algorithms that "
        "sort their input keep their multiset of sums (partitioners, ffd/bfd/bin-completion, the three covers). "
        "scale: factors {2,3,7,10,1024} (multifit: 2, 1024) applied to values and bin size multiply the heuristics' sums (as a "
        "sequence) and the exact algorithms' optimal value. zeros: adding one or two zero-valued items (at the front, at the end) "
        "keeps every exact algorithm's optimal value. agree: on all multisets of 11..13 items over {1,2,3,5} and on planted "
        "instances (T=12 patterns plus one extra unit item, 11..17 items) all exact algorithms whose cost is bounded report the same "
        "optimal value per objective, never worse than any heuristic's. No time-outs are used. A point is one related pair / one "
        "large instance; non-trivial = the transformed input differs from the original (perm), or the instance is not solved "
        "perfectly by greedy (agree).")
ASSUMPTIONS = ["integer values; scaled totals far below 2^53", "agreement scope limited by the cost of snp/rnp/ckk (no time-outs: a time-out would be uncontrolled nondeterminism)"]

EXACT_DIFF = ("ckk", "snp", "rnp")
FACTORS = (2, 3, 7, 10, 1024)


def bounds(tier):
    q = tier == "quick"
    return {"perm": f"partition: values 0..4, 1..5 items (all permutations), k=2..4; packing B=6 values 0..6 1..{4 if q else 5} items; covering B=6 values 1..9 1..{4 if q else 5} items",
            "scale": "partition: values 0..5, 1..5 items, k=1..4; packing: all sequences 1..4 items over 0..6 (B=6); covering: multisets 1..5 items over 1..9 (B=6)",
            "scale, odd bin sizes": "B in {7, 9, 15} with items 1, 2 and the integers next to B/3, B/2, B: multisets of 1..5(6), covers and packers, all five factors",
            "zeros": f"values 1..6, 1..{5 if q else 6} items, k=2..4, +1/+2 zeros",
            "agree-separating": "the 1091 objective-separating instances of tools/gen_separating.py (see C02), all exact algorithms, dp in both output families",
            "agree-fine": "offset letters {b/2+7, b+1, b+5, b+6, 2b+1, 2b+8}, b in {1e5, 1e6, 2**24, 1e9}, 4..5(6) items, k=2..3; 7 items over fibonacci 1..21" + ("" if q else " and 8 items over 1..34") + ", k=3: cg/ckk/snp/rnp/dp (both output families) must agree",
            "agree": ("11 items over {1,3,5} and over {2,3,5}, k=2..4, cg/ckk/snp/rnp/dp(k<=3)/ilp; planted+1 (12..13 items... up to 4 parts per pattern): k=3 patterns, without ilp" if q else "11..13 items over {1,2,3,5}, k=2..5 (snp/rnp k<=4, and k<=3 above 11 items); planted+1: k=3,4 patterns, with ilp")}


def tasks(tier):
    q = tier == "quick"
    ts = []
    for ch in scopes.chunk_multisets(range(0, 5), 1, 5, 6):
        ts.append(("perm-partition", ch, (2, 3, 4)))
    for ch in scopes.chunk_multisets(range(0, 7), 1, 4 if q else 5, 40):
        ts.append(("perm-packing", ch, 6))
    for ch in scopes.chunk_multisets(range(1, 10), 1, 4 if q else 5, 60):
        ts.append(("perm-covering", ch, 6))
    for ch in scopes.chunk_multisets(range(0, 6), 1, 5, 20):
        ts.append(("scale-partition", ch, (1, 2, 3, 4)))
    for ch in spaces.chunked(spaces.sequences(range(0, 7), 1, 4), 200):
        ts.append(("scale-packing", ch, 6))
    for ch in scopes.chunk_multisets(range(1, 10), 1, 5, 200):
        ts.append(("scale-covering", ch, 6))
    # odd bin sizes (an integer division at a class threshold is not scale-invariant), items around (B-1)/2 and B/3
    for Bo in (7, 9, 15):
        for ch in scopes.chunk_multisets(sorted({1, 2, Bo // 3, Bo // 3 + 1, (Bo - 1) // 2, (Bo + 1) // 2, Bo - 1, Bo}), 1, 5 if q else 6, 200):
            ts.append(("scale-covering", ch, Bo))
            ts.append(("scale-packing", ch, Bo))
    for ch in scopes.chunk_multisets(range(1, 7), 1, 5 if q else 6, 20):
        ts.append(("zeros", ch, (2, 3, 4)))
    if q:
        for alpha in ((1, 3, 5), (2, 3, 5)):
            for ch in scopes.chunk_multisets(alpha, 11, 11, 3):
                ts.append(("agree", ch, (2, 3, 4)))
    else:
        for n in (11, 12, 13):
            for ch in scopes.chunk_multisets((1, 2, 3, 5), n, n, 6):
                ts.append(("agree", ch, (2, 3, 4, 5)))
    # fine-grained values: large base + small offsets; values spread over two orders of magnitude (dp in both output families)
    for ch in spaces.chunked(scopes.offset_multisets(4, 5 if q else 6), 12):
        ts.append(("agree-fine", ch, (2, 3)))
    for ch in scopes.chunk_multisets((1, 2, 3, 5, 8, 13, 21), 7, 7, 12):
        ts.append(("agree-fine", ch, (3,)))
    if not q:
        for ch in scopes.chunk_multisets((1, 2, 3, 5, 8, 13, 21, 34), 8, 8, 12):
            ts.append(("agree-fine", ch, (3,)))
    sep, _ = scopes.separating_instances()
    for k in (3, 4):
        for ch in spaces.chunked([it for it, kk, _ in sep if kk == k], 12):
            ts.append(("agree-fine", ch, (k,)))
    for k in ((3,) if q else (3, 4)):
        gen = (tuple(sorted(it + (1,), reverse=True)) for it, _ in spaces.planted(12, (2, 3, 4, 5, 6, 7), k, maxparts=4))
        for ch in spaces.chunked(gen, 8):
            ts.append(("agree-planted" if q else "agree-planted-ilp", ch, (k,)))
    return ts


def _sums(acc, case):
    obs = repo.call(case)
    acc.ran(case["algo"])
    if obs[0] == "exc" or obs[1] is None:
        return None, obs
    return list(obs[1]), obs


def _value(spec, sums):
    from ..oracles import objective_value
    return objective_value(spec, sums)


def _exact_cfgs(n, k, ilp=False, dp_limit=1100):
    cfgs = [(a, {}, "MinimizeDifference") for a in EXACT_DIFF if not (a == "rnp" and k >= 6)]
    for o in scopes.CG_OBJECTIVES:
        cfgs.append(("cg", {"objective": o}, o))
    if k ** n <= dp_limit:
        for o in scopes.CG_OBJECTIVES:
            cfgs.append(("dp", {"objective": o}, o))
    if ilp:
        for o in scopes.CG_OBJECTIVES:
            cfgs.append(("ilp", {"objective": o}, o))
    return cfgs


SORTING_PARTITIONERS = ("greedy", "roundrobin", "multifit", "kk")


def _perm_partition(acc, ms, ks):
    for k in ks:
        ref = {}
        base = list(ms)
        for algo, kw, spec in _exact_cfgs(len(ms), k, ilp=(len(ms) <= 3)):
            s, _ = _sums(acc, {"algo": algo, "items": base, "k": k, "out": "Sums", "kw": kw})
            ref[(algo, spec)] = None if s is None else _value(spec, s)
        for algo in SORTING_PARTITIONERS + (("cbldm",) if k == 2 else ()):
            s, _ = _sums(acc, {"algo": algo, "items": base, "k": k, "out": "Sums"})
            ref[(algo, None)] = None if s is None else Counter(s)
        for p in spaces.distinct_permutations(ms):
            if list(p) == base:
                acc.point(nontrivial=False); continue
            acc.point(nontrivial=True)
            for (algo, spec), want in ref.items():
                kw = {} if spec is None or algo in EXACT_DIFF else {"objective": spec}
                case = {"algo": algo, "items": list(p), "k": k, "out": "Sums", "kw": kw, "rel": "perm", "base": base}
                s, obs = _sums(acc, case)
                got = None if s is None else (_value(spec, s) if spec else Counter(s))
                acc.check()
                if got != want:
                    acc.violation(algo, cfg_str(case), inp_str(case), "changes_under_permutation",
                                  f"as for {base}: {want if spec else sorted(want.elements()) if want else want}",
                                  (got if spec else sorted(got.elements())) if got is not None else obs[1:], case)
        acc.outcome(tuple(sorted((str(k), str(v)) for k, v in ref.items())))


def _perm_sized(acc, ms, B, algos):
    base = list(ms)
    ref = {}
    for a in algos:
        s, _ = _sums(acc, {"algo": a, "items": base, "B": B, "out": "Sums"})
        ref[a] = None if s is None else Counter(s)
    for p in spaces.distinct_permutations(ms):
        if list(p) == base:
            acc.point(nontrivial=False); continue
        acc.point(nontrivial=True)
        for a, want in ref.items():
            case = {"algo": a, "items": list(p), "B": B, "out": "Sums", "rel": "perm", "base": base}
            s, obs = _sums(acc, case)
            got = None if s is None else Counter(s)
            acc.check()
            if got != want:
                acc.violation(a, cfg_str(case), inp_str(case), "changes_under_permutation", f"as for {base}: {sorted(want.elements()) if want else want}",
                              sorted(got.elements()) if got is not None else obs[1:], case)
    acc.outcome(tuple(sorted((a, str(v)) for a, v in ref.items())))


def _scale_partition(acc, ms, ks):
    base = list(ms)
    for k in ks:
        acc.point(nontrivial=any(base))
        for algo in SORTING_PARTITIONERS:
            s0, _ = _sums(acc, {"algo": algo, "items": base, "k": k, "out": "Sums"})
            for f in ((2, 1024) if algo == "multifit" else FACTORS):
                case = {"algo": algo, "items": [v * f for v in base], "k": k, "out": "Sums", "rel": "scale", "factor": f, "base": base}
                s1, obs = _sums(acc, case)
                acc.check()
                want = None if s0 is None else [v * f for v in s0]
                if s1 != want:
                    acc.violation(algo, cfg_str(case), inp_str(case), "does_not_scale", want, s1 if s1 is not None else obs[1:], case)
        for algo, kw, spec in _exact_cfgs(len(ms), k, ilp=(len(ms) <= 3 and k <= 3)):
            s0, _ = _sums(acc, {"algo": algo, "items": base, "k": k, "out": "Sums", "kw": kw})
            v0 = None if s0 is None else _value(spec, s0)
            for f in ((2, 7, 10) if algo == "ilp" else FACTORS):
                case = {"algo": algo, "items": [v * f for v in base], "k": k, "out": "Sums", "kw": kw, "rel": "scale", "factor": f, "base": base}
                s1, obs = _sums(acc, case)
                acc.check()
                v1 = None if s1 is None else _value(spec, s1)
                if v0 is None or v1 is None or v1 != v0 * f:
                    acc.violation(algo, cfg_str(case), inp_str(case), "optimum_does_not_scale", None if v0 is None else v0 * f, v1 if v1 is not None else obs[1:], case)
        acc.outcome((k, tuple(base)))


def _scale_sized(acc, it, B, algos):
    base = list(it)
    acc.point(nontrivial=any(base))
    for a in algos:
        s0, _ = _sums(acc, {"algo": a, "items": base, "B": B, "out": "Sums"})
        for f in FACTORS:
            case = {"algo": a, "items": [v * f for v in base], "B": B * f, "out": "Sums", "rel": "scale", "factor": f, "base": base}
            s1, obs = _sums(acc, case)
            acc.check()
            want = None if s0 is None else [v * f for v in s0]
            if s1 != want:
                acc.violation(a, cfg_str(case), inp_str(case), "does_not_scale", want, s1 if s1 is not None else obs[1:], case)
    acc.outcome(tuple(base))


def _zeros(acc, ms, ks):
    base = list(ms)
    for k in ks:
        for algo, kw, spec in _exact_cfgs(len(ms) + 2, k, ilp=(len(ms) <= 3), dp_limit=4100):
            s0, _ = _sums(acc, {"algo": algo, "items": base, "k": k, "out": "Sums", "kw": kw})
            v0 = None if s0 is None else _value(spec, s0)
            for variant in (base + [0], [0] + base, base + [0, 0], [0] + base + [0]):
                acc.point(nontrivial=True)
                case = {"algo": algo, "items": variant, "k": k, "out": "Sums", "kw": kw, "rel": "zeros", "base": base}
                s1, obs = _sums(acc, case)
                acc.check()
                v1 = None if s1 is None else _value(spec, s1)
                if v0 is None or v1 != v0:
                    acc.violation(algo, cfg_str(case), inp_str(case), "optimum_changes_with_zeros", v0, v1 if v1 is not None else obs[1:], case)
        acc.outcome((k, tuple(base)))


def _agree(acc, ms, ks, big, ilp=True):
    base = list(ms)
    n = len(base)
    for k in ks:
        vals = {}
        for algo, kw, spec in _exact_cfgs(n, k, ilp=ilp, dp_limit=3 ** 13 + 1):
            if algo in ("snp", "rnp") and (k >= 5 or (n > 11 and k >= 4)) and big:
                continue
            if algo == "ckk" and k >= 5 and n > 12:
                continue
            case = {"algo": algo, "items": base, "k": k, "out": "Sums", "kw": kw, "rel": "agree"}
            s, obs = _sums(acc, case)
            if s is None or len(s) != k or sum(s) != sum(base):
                acc.violation(algo, cfg_str(case), inp_str(case), "raises_or_not_a_partition", "sums", obs[1:], case); continue
            vals.setdefault(spec, {})[algo] = _value(spec, s)
            if algo == "dp" and not big:       # dp has one code path per output family
                c2 = dict(case, out="PartitionAndSumsTuple")
                obs2 = repo.call(c2); acc.ran("dp")
                if obs2[0] == "ok" and obs2[1] is not None:
                    vals[spec]["dp/partition-output"] = _value(spec, list(obs2[1][0]))
        heur = {}
        for algo in SORTING_PARTITIONERS:
            s, _ = _sums(acc, {"algo": algo, "items": base, "k": k, "out": "Sums"})
            if s is not None and len(s) == k:      # multifit may use fewer bins: not comparable then
                heur[algo] = s
        trivial = True
        for spec, by in vals.items():
            acc.check()
            best = min(by.values())
            if len(set(by.values())) > 1:
                worst = [a for a, v in by.items() if v != best]
                worst = [a.split("/")[0] for a in worst]
                case = {"algo": worst[0], "items": base, "k": k, "out": "Sums", "rel": "agree", "fine": not big,
                        "kw": {} if worst[0] in EXACT_DIFF else {"objective": spec}}
                acc.violation(worst[0], cfg_str(case), inp_str(case), "exact_algorithms_disagree", f"{spec}: {best}", by, case)
            for h, s in heur.items():
                hv = _value(spec, s)
                if hv < best:
                    case = {"algo": h, "items": base, "k": k, "out": "Sums", "rel": "agree"}
                    acc.violation("exact-vs-" + h, cfg_str(case), inp_str(case), "heuristic_beats_exact", f"{spec}: exact {by}", f"{h} {hv}", case)
                if h == "greedy" and hv != best:
                    trivial = False
        acc.point(nontrivial=not trivial)
        acc.outcome((k, tuple(sorted((s, tuple(sorted(b.items()))) for s, b in vals.items()))))


def run_task(task):
    scope, chunk, size = task
    acc = Acc(ID, scope)
    for ms in chunk:
        if scope == "perm-partition": _perm_partition(acc, ms, size)
        elif scope == "perm-packing": _perm_sized(acc, ms, size, ("ffd", "bfd", "bc"))
        elif scope == "perm-covering": _perm_sized(acc, ms, size, scopes.COVER_ALGOS)
        elif scope == "scale-partition": _scale_partition(acc, ms, size)
        elif scope == "scale-packing": _scale_sized(acc, ms, size, scopes.PACK_ALGOS)
        elif scope == "scale-covering": _scale_sized(acc, ms, size, scopes.COVER_ALGOS)
        elif scope == "zeros": _zeros(acc, ms, size)
        elif scope == "agree-fine": _agree(acc, ms, size, False, ilp=False)
        else: _agree(acc, ms, size, True, ilp=(scope != "agree-planted"))
    acc.sample({"scope": scope, "first": list(chunk[0]), "size": list(size) if isinstance(size, tuple) else size})
    return acc


def replay(case, acc):
    rel = case.get("rel")
    base = tuple(case.get("base", case["items"]))
    fam = repo.family(case["algo"]) if case["algo"] in repo.ALGOS else "partition"
    if rel == "perm":
        if fam == "partition": _perm_partition(acc, base, (case["k"],))
        else: _perm_sized(acc, base, case["B"], (case["algo"],))
    elif rel == "scale":
        if fam == "partition": _scale_partition(acc, base, (case["k"],))
        else: _scale_sized(acc, base, case["B"] // case["factor"], (case["algo"],))
    elif rel == "zeros":
        _zeros(acc, base, (case["k"],))
    else:
        _agree(acc, tuple(case["items"]), (case["k"],), not case.get("fine"), ilp=not case.get("fine"))
