"""
C08 - partitioning heuristics meet their proven worst-case guarantees.
Engine E1; optimum from the exhaustive oracle (small) and from planted instances (large); all inequalities are
cross-multiplied integers / Fractions.
"""
from fractions import Fraction
from .. import repo, scopes, spaces, oracles as O
from ..runner import Acc
from ..judge import cfg_str, inp_str

ID = "C08"
ENGINE = "E1"
LEVEL = "model_checking"
RULE = ("all multisets of 1..N values from 0..V x bin counts 1..K, plus every planted instance (every multiset of k patterns, a "
        "pattern being a partition of T into letters: optimum largest = smallest = T by construction) and LPT's tight family "
        "{2k-1,2k-1,...,k+1,k+1,k,k,k}; oracle: 3k*max <= (4k-1)*OPT (greedy, kk), (4k-2)*min >= (3k-1)*OPTmin (greedy), "
        "max <= (1.22+2^-i)*OPT (multifit, i in {1,3,10}), max-min <= largest item (greedy, kk, roundrobin), roundrobin sums "
        "non-increasing in bin index and cardinalities within one. A point is one (input, numbins); non-trivial = greedy's "
        "largest sum differs from the optimum.")
ASSUMPTIONS = ["integer values; ratio bounds only for k >= 2", "multifit bound as stated in the property (1.22 + 2^-iterations)"]

LETTERS = (2, 3, 4, 5, 6, 7)
T = 12


def bounds(tier):
    q = tier == "quick"
    return {"dense": f"values 0..{8 if q else 9}, 1..{7 if q else 8} items, 1..5 bins",
            "planted": f"T=12, letters {LETTERS}, patterns with <=4 parts, k=3..{5 if q else 6} patterns",
            "planted-big": "T=12, every unordered pair of patterns (p, r) with multiplicities (a, b) in " + ("{(7,4),(12,12),(30,10)}" if q else "{(7,4),(12,12),(30,10),(9,40),(64,1)}") + ": k=a+b bins, up to 260 items",
            "manybins": ("k=16,17 with every multiset of k+1..k+3 items over 1..4; k=32,33 over 1..3" if q else "k=15,17 (1..4), 16 (1..5), 31..33 (1..3), 64,65 (1..2), every multiset of k+1..k+3 items") + "; optimum replaced by sound stand-ins from the reference LPT partition",
            "lpt-tight": "k=2..8", "presentation": "every input is given in a fixed non-sorted order"}


def tasks(tier):
    q = tier == "quick"
    ts = []
    for ch in scopes.chunk_multisets(range(0, 9 if q else 10), 1, 7 if q else 8, 150):
        ts.append(("dense", ch, (1, 2, 3, 4, 5)))
    for k in ((3, 4, 5) if q else (3, 4, 5, 6)):
        for ch in spaces.chunked((it for it, _ in spaces.planted(T, LETTERS, k, maxparts=4)), 150):
            ts.append(("planted", ch, (k,)))
    # large planted instances: every unordered pair of patterns x a grid of multiplicities (tens of bins, up to ~200 items)
    pats = spaces.partitions_of(T, LETTERS, 4)
    big = []
    for i, p in enumerate(pats):
        for r in pats[i:]:
            for a, b in (((7, 4), (12, 12), (30, 10)) if q else ((7, 4), (12, 12), (30, 10), (9, 40), (64, 1))):
                big.append(tuple(sorted(p * a + r * b, reverse=True)))
    for ch in spaces.chunked(big, 40):
        ts.append(("planted-big", ch, None))
    # many bins, few items per bin: k = 16, 17 (values 1..4) and 32, 33 (values 1..3), every multiset of k+1..k+3 items.  The optimum
    # is replaced by sound stand-ins from the reference LPT partition: OPTmax <= its largest sum, OPTmin >= its smallest sum
    for k, V in ((16, 4), (17, 4), (32, 3), (33, 3)) if q else ((15, 4), (16, 5), (17, 4), (31, 3), (32, 3), (33, 3), (64, 2), (65, 2)):
        for ch in scopes.chunk_multisets(range(1, V + 1), k + 1, k + 3, 150):
            ts.append(("manybins", ch, (k,)))
    ts.append(("lpt-tight", [tuple(sorted([v for v in range(k + 1, 2 * k) for _ in (0, 1)] + [k, k, k], reverse=True)) for k in range(2, 9)], None))
    return ts


_OPT = [None]


_FMT = ["list"]


def _call(acc, algo, items, k, kw=None):
    case = {"algo": algo, "items": list(items), "k": k, "kw": kw or {}, "opt": _OPT[0], "fmt": _FMT[0]}
    obs = repo.call(case)
    acc.ran(algo)
    if obs[0] == "exc" or obs[1] is None:
        acc.violation(algo, cfg_str(case), inp_str(case), "raises", "a partition", obs[1:], case)
        return None, case
    sums, lists = obs[1]
    return (list(sums), lists), case


def _judge(acc, items, k, opt_max, opt_min):
    big = max(items)
    _OPT[0] = [opt_max, opt_min]
    g = None
    for algo in ("greedy", "kk", "roundrobin"):
        r, case = _call(acc, algo, items, k)
        if r is None: continue
        sums, lists = r
        if algo == "greedy": g = max(sums)
        acc.outcome((algo, k, max(sums) - opt_max, min(sums) - opt_min))
        if max(sums) - min(sums) > big:
            acc.violation(algo, cfg_str(case), inp_str(case), "gap_exceeds_largest_item", f"<= {big}", sums, case)
        if k >= 2 and algo in ("greedy", "kk") and 3 * k * max(sums) > (4 * k - 1) * opt_max:
            acc.violation(algo, cfg_str(case), inp_str(case), "largest_sum_ratio", f"<= (4/3-1/(3k)) * {opt_max}", sums, case)
        if k >= 2 and algo == "greedy" and (4 * k - 2) * min(sums) < (3 * k - 1) * opt_min:
            acc.violation(algo, cfg_str(case), inp_str(case), "smallest_sum_ratio", f">= (3k-1)/(4k-2) * {opt_min}", sums, case)
        if algo == "roundrobin":
            if any(sums[i] < sums[i + 1] for i in range(len(sums) - 1)):
                acc.violation(algo, cfg_str(case), inp_str(case), "sums_not_nonincreasing", "non-increasing in bin index", sums, case)
            cards = [len(b) for b in lists]
            if max(cards) - min(cards) > 1:
                acc.violation(algo, cfg_str(case), inp_str(case), "cardinalities", "differ by at most one", cards, case)
        acc.check()
    if k >= 2:
        for i in (1, 3, 10):
            r, case = _call(acc, "multifit", items, k, {"iterations": i})
            if r is None: continue
            sums, _ = r
            if len(sums) > k:
                acc.violation("multifit", cfg_str(case), inp_str(case), "more_bins_than_requested", f"<= {k} bins", sums, case)
            bound = (Fraction(122, 100) + Fraction(1, 2 ** i)) * opt_max
            if Fraction(max(sums)) > bound:
                acc.violation("multifit", cfg_str(case), inp_str(case), "largest_sum_ratio", f"<= (1.22+2^-{i}) * {opt_max}", sums, case)
            acc.check()
    return g


def run_task(task):
    scope, chunk, ks = task
    acc = Acc(ID, scope)
    for ms in chunk:
        ms = scopes.scramble(ms)      # a non-sorted presentation: sorted input would hide a missing sort
        if scope == "dense":
            for k in ks:
                o = O.opt_partition(tuple(ms), k)
                g = _judge(acc, ms, k, o["largest"], o["smallest"])
                acc.point(nontrivial=(g is not None and g != o["largest"]))
                if len(ms) <= 5:      # the guarantees are about values: identifiers + value function, names in a dict
                    for f in ("array_names", "dict_str"):
                        _FMT[0] = f
                        try:
                            _judge(acc, ms, k, o["largest"], o["smallest"])
                        finally:
                            _FMT[0] = "list"
        elif scope == "manybins":
            k = ks[0]
            ref = O.lpt_sums(ms, k)
            g = _judge(acc, ms, k, max(ref), min(ref))
            acc.point(nontrivial=(g is not None))
        elif scope == "planted":
            k = ks[0]
            g = _judge(acc, ms, k, T, T)
            acc.point(nontrivial=(g is not None and g != T))
        elif scope == "planted-big":
            k = sum(ms) // T
            g = _judge(acc, ms, k, T, T)
            acc.point(nontrivial=(g is not None and g != T))
        else:  # lpt tight family: n = 2k+1 items, optimum 3k, LPT 4k-1
            k = (len(ms) - 1) // 2
            g = _judge(acc, ms, k, 3 * k, 0)   # optimum smallest sum not known by construction: 0 is a sound (weaker) stand-in
            acc.point(nontrivial=True)
            acc.note("lpt_tight_attained" if g == 4 * k - 1 else "lpt_tight_not_attained")
        if ms == chunk[0]:
            acc.sample({"items": list(ms), "numbins": list(ks) if ks else "family k", "scope": scope})
    O.opt_partition.cache_clear()
    return acc


def replay(case, acc):
    items, k = case["items"], case["k"]
    _FMT[0] = case.get("fmt", "list")
    try:
        _judge(acc, items, k, case["opt"][0], case["opt"][1])
    finally:
        _FMT[0] = "list"
