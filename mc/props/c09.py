"""
C09 - fit heuristics keep the any-fit invariant and their bin-count bounds.
Engine E1.
"""
from .. import repo, scopes, spaces, oracles as O
from ..runner import Acc
from ..judge import cfg_str, inp_str

ID = "C09"
ENGINE = "E1"
LEVEL = "model_checking"
RULE = ("all sequences (every arrival order) of 1..N items over 1..B for first-fit / best-fit, all multisets for the decreasing "
        "variants, plus every planted perfect packing (every multiset of m patterns, a pattern being a partition of B into "
        "letters: OPT = m by construction) in six fixed arrival orders; oracle: for all bins i<j, sum(bin_i) + first item of "
        "bin_j > B (read off the Partition output, whose order is the placement order), bins <= floor(1.7*OPT) (ff, bf), "
        "9*bins <= 11*OPT+6 (ffd), bins <= 11/9*OPT+4 (bfd); OPT from the exhaustive oracle or the planted m. "
        "A point is one (input order, binsize); non-trivial = the heuristic opened at least two bins.")
ASSUMPTIONS = ["positive items (zero-valued items included in the dense scopes, where OPT is max(1, optimum of the positive items))",
               "the any-fit inequality is checked on the final sums, which the timed invariant implies"]

PLANT_LETTERS = (2, 3, 4, 5, 6, 7)


def bounds(tier):
    q = tier == "quick"
    return {"ff/bf": f"all sequences of 1..{6 if q else 8} items over 0..6 (B=6); all sequences of 1..{4 if q else 6} over 1..10 (B=10)",
            "ffd/bfd": f"all multisets of 1..{8 if q else 10} items over 0..6 (B=6) and 1..{7 if q else 9} over 1..10 (B=10)",
            "planted-big": "B=12 and B=101 (letters 1,2,16,17,33,34,50,51,67): every unordered pair of patterns x multiplicities " + ("(18,9),(60,30)" if q else "(18,9),(60,30),(5,100),(150,150)") + ", 6 arrival orders",
            "count-sweep": f"for every m in 1..{40 if q else 141}: inputs that need exactly m bins (B=10), 6 arrival orders",
            "fractions": f"multiples of 1/2 (B=7, B=10): sequences of 1..{4 if q else 6}, multisets of 1..{7 if q else 9}; multiples of 1/8 with B=1 and B=7/8: multisets of 1..{8 if q else 10}",
            "big": f"B=2**32, letters {{1, 2**31-1, 2**31, 2**31+1, 2**32-1, 2**32}}: all sequences of 1..{4 if q else 6}, multisets of 1..{5 if q else 7}",
            "planted": f"B=12, letters {PLANT_LETTERS}, patterns <=4 parts, m=3..{6 if q else 9} bins, 6 orders, 4 algorithms"}


def tasks(tier):
    q = tier == "quick"
    ts = []
    for ch in spaces.chunked(spaces.sequences(range(0, 7), 1, 6 if q else 8), 4000):
        ts.append(("seq", ch, 6))
    for ch in spaces.chunked(spaces.sequences(range(1, 11), 1, 4 if q else 6), 4000):
        ts.append(("seq", ch, 10))
    for alpha, N, B in ((range(0, 7), 8 if q else 10, 6), (range(1, 11), 7 if q else 9, 10)):
        for ch in scopes.chunk_multisets(alpha, 1, N, 1500):
            ts.append(("ms", ch, B))
    for m in (range(3, 7) if q else range(3, 9)):
        for ch in spaces.chunked(((it, m) for it, _ in spaces.planted(12, PLANT_LETTERS, m, maxparts=4)), 400):
            ts.append(("planted", ch, 12))
    # large planted perfect packings (tens to hundreds of bins, where the 11/9 and 1.7 factors leave the additive terms behind):
    # every unordered pair of patterns x a grid of multiplicities, for B=12 and for B=101 with letters next to B/2, B/3, B/6
    for Bb, letters in ((12, PLANT_LETTERS), (101, (1, 2, 16, 17, 33, 34, 50, 51, 67))):
        pats = spaces.partitions_of(Bb, letters, 4)
        big = []
        for i, pth in enumerate(pats):
            for r in pats[i:]:
                for a, b in (((18, 9), (60, 30)) if q else ((18, 9), (60, 30), (5, 100), (150, 150))):
                    big.append((tuple(sorted(pth * a + r * b, reverse=True)), a + b))
        for ch in spaces.chunked(big, 30):
            ts.append(("planted", ch, Bb))
    # near-miss sums around a 2**32 bin (a tolerance or a narrower number type would break the any-fit invariant there)
    BL = (1, 2 ** 31 - 1, 2 ** 31, 2 ** 31 + 1, 2 ** 32 - 1, 2 ** 32)
    for ch in spaces.chunked(spaces.sequences(BL, 1, 4 if q else 6), 400):
        ts.append(("seq", ch, 2 ** 32))
    for ch in scopes.chunk_multisets(BL, 1, 5 if q else 7, 200):
        ts.append(("ms", ch, 2 ** 32))
    for Bh, letters in scopes.HALVES.items():          # multiples of 1/2 around B/2 and B; and eighths with B=1 and B=7/8
        for ch in spaces.chunked(spaces.sequences(letters, 1, 4 if q else 6), 1000):
            ts.append(("seq", ch, Bh))
        for ch in scopes.chunk_multisets(letters, 1, 7 if q else 9, 1000):
            ts.append(("ms", ch, Bh))
    from fractions import Fraction
    for Bd in (1.0, 0.875):
        eighths = [i / 8 for i in range(1, 9) if i / 8 <= Bd]
        for ch in scopes.chunk_multisets(eighths, 1, 8 if q else 10, 1000):
            ts.append(("ms", ch, Bd))
    for ch in spaces.chunked(((items, m) for items, _, m in scopes.count_sweep_packing(tier)), 12):
        ts.append(("planted", ch, 10))
    return ts


def _timed(acc, algo, items, B, opt):
    """the invariant AT THE TIME a bin is opened (online heuristics): the items are given by name in arrival order, the bins list
    their names in placement order, so the content of every earlier bin at the moment a later bin received its first item is known"""
    case = {"algo": algo, "items": list(items), "B": B, "out": "Partition", "opt": opt, "fmt": "names", "timed": True}
    obs = repo.call(case)
    acc.ran(algo)
    if obs[0] == "exc":
        acc.violation(algo, cfg_str(case), inp_str(case), "raises", "a packing", obs[1:], case); return
    bins, d = obs[1], obs[2]
    pos = {nm: i for i, nm in enumerate(d.names_list if getattr(d, "names_list", None) else d.keys())}
    try:
        for j in range(1, len(bins)):
            if not bins[j]:
                continue
            first = bins[j][0]; t = pos[first]
            for i in range(j):
                then = sum(d[x] for x in bins[i] if pos[x] < t)
                if then + d[first] <= B:
                    acc.violation(algo, cfg_str(case), inp_str(case), "any_fit_violated_when_the_bin_was_opened",
                                  f"bin {i} held {then} when {d[first]} opened bin {j}: it fitted (<= {B})", [[d[x] for x in b] for b in bins], case)
                    return
    except KeyError:
        acc.violation(algo, cfg_str(case), inp_str(case), "unknown_names_in_result", "the input names", bins, case)


def _judge(acc, algo, items, B, opt):
    case = {"algo": algo, "items": list(items), "B": B, "out": "Partition", "opt": opt}
    obs = repo.call(case)
    acc.ran(algo)
    if obs[0] == "exc":
        acc.violation(algo, cfg_str(case), inp_str(case), "raises", "a packing", obs[1:], case); return 0
    bins = obs[1]
    if algo in ("ff", "bf") and len(items) <= 8:
        _timed(acc, algo, items, B, opt)
    sums = [sum(b) for b in bins]
    n = len(bins)
    for j in range(1, n):
        if not bins[j]:
            acc.violation(algo, cfg_str(case), inp_str(case), "empty_bin", "no empty bin", bins, case); break
        first = bins[j][0]
        bad = [i for i in range(j) if sums[i] + first <= B]
        if bad:
            acc.violation(algo, cfg_str(case), inp_str(case), "any_fit_violated",
                          f"bin {bad[0]} (sum {sums[bad[0]]}) + first item {first} of bin {j} > {B}", bins, case)
            break
    if algo in ("ff", "bf"):
        ok = 10 * n <= 17 * opt
        b = f"<= floor(1.7*{opt})"
    elif algo == "ffd":
        ok = 9 * n <= 11 * opt + 6; b = f"<= 11/9*{opt}+6/9"
    else:
        ok = 9 * n <= 11 * opt + 36; b = f"<= 11/9*{opt}+4"
    if not ok:
        acc.violation(algo, cfg_str(case), inp_str(case), "bin_count_bound", b, f"{n} bins", case)
    if n < opt:
        acc.violation(algo, cfg_str(case), inp_str(case), "fewer_bins_than_optimum", f">= {opt}", f"{n} bins {bins}", case)
    acc.check()
    acc.outcome((algo, n - opt))
    return n


def run_task(task):
    scope, chunk, B = task
    acc = Acc(ID, scope)
    for it in chunk:
        if scope == "seq":
            opt = max(1, O.opt_pack(tuple(sorted(it, reverse=True)), B))
            n = max(_judge(acc, a, it, B, opt) for a in ("ff", "bf"))
            acc.point(nontrivial=(n >= 2))
        elif scope == "ms":
            opt = max(1, O.opt_pack(tuple(it), B))
            # presented in ASCENDING order: a decreasing variant that fails to sort (or sorts by a wrong key) degrades to the online rule
            n = max(_judge(acc, a, it[::-1], B, opt) for a in ("ffd", "bfd"))
            acc.point(nontrivial=(n >= 2))
        else:
            items, m = it
            for order in spaces.fixed_orders(items):
                n = max(_judge(acc, a, order, B, m) for a in ("ff", "bf"))
                acc.point(nontrivial=(n >= 2))
            n = max(_judge(acc, a, tuple(sorted(items)), B, m) for a in ("ffd", "bfd"))
            acc.point(nontrivial=(n >= 2))
        if it == chunk[0]:
            acc.sample({"input": list(it), "binsize": B, "scope": scope})
    O.opt_pack.cache_clear()
    return acc


def replay(case, acc):
    if case.get("timed"):
        _timed(acc, case["algo"], case["items"], case["B"], case["opt"])
    else:
        _judge(acc, case["algo"], case["items"], case["B"], case["opt"])
