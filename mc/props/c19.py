"""
C19 - unsatisfiable or malformed requests are refused with an error, never answered.
Engine E1.
"""
from fractions import Fraction
from itertools import product
from .. import repo, scopes, spaces
from ..runner import Acc
from ..judge import cfg_str, inp_str

ID = "C19"
ENGINE = "E1"
LEVEL = "model_checking"
RULE = ("packing: every sequence of 1..N items over an alphabet with two oversize letters, zero, an exactly-fitting and a half-size "
        "letter, containing at least one oversize item (every position and multiplicity) x 5 packers x 5 input formats x 10 output "
        "types: must raise ValueError. CBLDM: over every valid multiset of a small scope, exactly one invalid argument at a time - "
        "numbins in {0,1,3,4}, one negative item at every position, time_limit in {0,-1}, cardinality bound in {0,-1,1.5,2.5}: must "
        "raise ValueError. Sums-only manager: numitems on every array reachable by new/add sequences of a small scope must raise and "
        "never return a number. A point is one refused request; non-trivial = a valid prefix precedes the offending element "
        "(the oversize / negative item is not in first position, or the request has other valid arguments).")
ASSUMPTIONS = ["values whose reading is debatable (bound 2.0, numpy integers as bound) are deliberately not in the alphabet"]


def bounds(tier):
    q = tier == "quick"
    return {"packing": f"B=6, alphabet (0,3,6,7,9), 1..{4 if q else 6} items, >=1 oversize; dyadic B=1 alphabet (0,1/2,1,9/8,2) 1..3 items",
            "packing-zero-bin": "B=0 with items over (0,1,2), 1..3 items, >=1 positive; B=7 with items over (3, 7, 10**400)",
            "packing-huge": "B=2**53 (items 1, 2**52, 2**53, 2**53+1, 2**54), B=2**60 (5, 2**59, 2**60, 2**60+100): 1..3 items (integer bin size and integer items: the comparison is exact), >=1 oversize",
            "packing-near": f"B=2**32 alphabet (1, 2**31, 2**32, 2**32+1, 2**33); B=1.0 alphabet (0.5, 1, 1+2**-40, 1+2**-20); B=60.0 alphabet (30, 60, 60.00000001, 61): 1..{3 if q else 5} items, >=1 oversize",
            "cbldm": f"valid multisets of 0..{4 if q else 6} items over 0..3 (the empty list included); negative values -1,-3",
            "numitems": "arrays of 1..3 bins after 0..3 additions of items valued 0..2"}


def tasks(tier):
    q = tier == "quick"
    ts = []
    seqs = [s for s in spaces.sequences((0, 3, 6, 7, 9), 1, 4 if q else 6) if any(v > 6 for v in s)]
    for ch in spaces.chunked(seqs, 40):
        ts.append(("packing", ch, 6))
    fr = (Fraction(0), Fraction(1, 2), Fraction(1), Fraction(9, 8), Fraction(2))
    seqs = [s for s in spaces.sequences(fr, 1, 3) if any(v > 1 for v in s)]
    for ch in spaces.chunked(seqs, 40):
        ts.append(("packing-dyadic", ch, 1))
    # near-threshold oversize items: one unit above a 2**32 bin, 2**-40 above a bin of 1.0, 1e-8 above a bin of 60
    # (a relative tolerance or a narrower number type would let them through)
    big = (1, 2 ** 31, 2 ** 32, 2 ** 32 + 1, 2 ** 33)
    seqs = [s for s in spaces.sequences(big, 1, 3 if q else 5) if any(v > 2 ** 32 for v in s)]
    for ch in spaces.chunked(seqs, 40):
        ts.append(("packing-near", ch, 2 ** 32))
    # beyond 2**53 an excess of one unit is below the resolution of a float sum: the refusal must not depend on float arithmetic
    for alpha, B in (((1, 2 ** 52, 2 ** 53, 2 ** 53 + 1, 2 ** 54), 2 ** 53), ((5, 2 ** 59, 2 ** 60, 2 ** 60 + 100), 2 ** 60)):
        seqs = [s for s in spaces.sequences(alpha, 1, 3) if any(v > B for v in s)]
        for ch in spaces.chunked(seqs, 40):
            ts.append(("packing-near", ch, B))
    for alpha, B in (((0.5, 1.0, 1.0 + 2.0 ** -40, 1.0 + 2.0 ** -20), 1.0), ((30.0, 60.0, 60.00000001, 61.0), 60.0)):
        seqs = [s for s in spaces.sequences(alpha, 1, 3 if q else 5) if any(v > B for v in s)]
        for ch in spaces.chunked(seqs, 40):
            ts.append(("packing-near", ch, B))
    # a bin of size zero (every positive item is oversize) and an integer far beyond float range
    seqs = [s for s in spaces.sequences((0, 1, 2), 1, 3) if any(v > 0 for v in s)]
    for ch in spaces.chunked(seqs, 40):
        ts.append(("packing-near", ch, 0))
    seqs = [s for s in spaces.sequences((3, 7, 10 ** 400), 1, 3) if any(v > 7 for v in s)]
    for ch in spaces.chunked(seqs, 40):
        ts.append(("packing-huge", ch, 7))
    for ch in scopes.chunk_multisets(range(0, 4), 1, 4 if q else 6, 12):
        ts.append(("cbldm", ch, None))
    ts.append(("cbldm", [()], None))      # no items at all + one invalid argument: still refused (the statement is unconditional)
    ts.append(("numitems", [None], None))
    return ts


def _must_raise(acc, case, nontrivial):
    obs = repo.call(case)
    acc.ran(case["algo"]); acc.check()
    acc.point(nontrivial=nontrivial)
    acc.outcome(obs[:2])
    if obs[0] == "ok":
        acc.violation(case["algo"], cfg_str(case), inp_str(case), "answered_instead_of_refusing", "ValueError", obs[1], case)
    elif obs[1] != "ValueError":
        acc.violation(case["algo"], cfg_str(case), inp_str(case), "wrong_exception_type", "ValueError", f"{obs[1]}: {obs[2]}", case)


def _numitems(acc):
    bs = repo.prtpy.BinnerKeepingSums()
    for n in (1, 2, 3):
        for adds in range(0, 4):
            for seq in product(product(range(3), range(n)), repeat=adds):
                bins = bs.new_bins(n)
                for v, i in seq:
                    bs.add_item_to_bin(bins, v, i)
                for i in range(n):
                    acc.ran("numitems"); acc.check()
                    acc.point(nontrivial=(adds > 0))
                    try:
                        r = bs.numitems(bins, i)
                    except Exception as e:
                        acc.outcome(type(e).__name__); continue
                    acc.violation("numitems", "BinnerKeepingSums", f"n={n};adds={list(seq)};bin={i}", "answered_instead_of_refusing",
                                  "an exception", r, {"part": "numitems"})


def run_task(task):
    scope, chunk, B = task
    acc = Acc(ID, scope)
    if scope == "numitems":
        _numitems(acc)
        acc.sample({"scope": "numitems", "example": "new_bins(2); add 1 to bin 0; numitems(bins,0)"})
        return acc
    for it in chunk:
        if scope.startswith("packing"):
            items = [float(v) for v in it] if scope == "packing-dyadic" else list(it)
            first_over = next(i for i, v in enumerate(items) if v > B)
            for a in scopes.PACK_ALGOS:
                for fmt in (repo.FORMATS if scope == "packing" else ("list", "dict_str") if scope == "packing-huge" else ("list", "dict_str", "names")):
                    if scope == "packing-near" and fmt == "names":
                        fmt = "array"
                    for o in scopes.OUTS:
                        _must_raise(acc, {"algo": a, "items": items, "B": B, "fmt": fmt, "out": o}, first_over > 0)
        else:
            items = list(it)
            for fmt in ("list", "dict_str"):
                for k in (0, 1, 3, 4):
                    _must_raise(acc, {"algo": "cbldm", "items": items, "k": k, "fmt": fmt}, True)
                for tl in (0, -1):
                    _must_raise(acc, {"algo": "cbldm", "items": items, "k": 2, "fmt": fmt, "kw": {"time_limit": tl}}, True)
                for d in (0, -1, 1.5, 2.5):
                    _must_raise(acc, {"algo": "cbldm", "items": items, "k": 2, "fmt": fmt, "kw": {"partition_difference": d}}, True)
                for pos in range(len(items) + 1):
                    for neg in (-1, -3):
                        bad = items[:pos] + [neg] + items[pos:]
                        _must_raise(acc, {"algo": "cbldm", "items": bad, "k": 2, "fmt": fmt}, pos > 0)
        if it == chunk[0]:
            acc.sample({"input": [str(v) for v in it], "scope": scope})
    return acc


def replay(case, acc):
    if case.get("part") == "numitems":
        _numitems(acc)
    else:
        _must_raise(acc, case, True)
