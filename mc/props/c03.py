"""
C03 - bin-packing results are feasible packings of exactly the input items.
Engine E1.
"""
from fractions import Fraction
from .. import repo, scopes, spaces
from ..runner import Acc
from ..judge import judge_packing, cfg_str, inp_str

ID = "C03"
ENGINE = "E1"
LEVEL = "model_checking"
RULE = ("all sequences (every arrival order) of 1..N items from 0..B for first-fit/best-fit, all multisets for the decreasing "
        "variants and bin-completion, bin sizes B in a small set, dyadic fractions with B=1 for the four fit heuristics, and "
        "all ten output types on a sub-scope; oracle: every bin sum (recomputed from the items) <= B, item multiset conserved "
        "(bin-completion may drop zero-valued items only), no empty bin, BinCount == len(Partition) == len(Sums). "
        "A point is one (input, binsize); non-trivial = more than one bin is needed (total > B).")
ASSUMPTIONS = ["items 0 <= value <= binsize; integers, or dyadic fractions k/8 with binsize 1 (exact in float64)",
               "bounds as listed in evidence.coverage.bounds"]


def bounds(tier):
    if tier == "quick":
        return {"ff/bf": "all sequences of 1..5 items over 0..6, B=6; multisets of 1..6 over 0..10 in 6 fixed orders, B=10",
                "ffd/bfd/bc": "all multisets of 1..7 items over 0..6 (B=6), 1..6 items over 0..10 (B=10), 1..8 items over 1..10 (B=20: bins of three and more items)",
                "dyadic": "all sequences of 1..4 items over {0,1/8,..,1}, B=1, ff/ffd/bf/bfd",
                "output types": "all 10 on multisets of 1..4 items over 0..6, B=6",
                "halves": "multiples of 1/2 around B/2 and B (B=7, B=10): sequences of 1..4, multisets of 5..7; four fit heuristics",
                "big": "B=2**32, letters {1, 2**31-1, 2**31, 2**31+1, 2**32-1, 2**32}: all sequences of 1..4 (ff/bf), multisets of 1..5 (ffd/bfd/bc); the same letters divided by 2**32 with B=1 (fit heuristics)",
                "count-sweep": "for every m in 1..40: m items of 6 (B=10) alone / with m fours / with fours and threes / with 2m ones: 4 fit heuristics in 3 orders, bin-completion, all output types",
                "long-thin": "multisets of 9..15 items over {1,2} (B=5), {1,2,3} (B=7), {2,3,5} (B=10), {0,1,4} (B=4): ff/bf in 6 fixed orders, ffd/bfd/bc"}
    return {"ff/bf": "all sequences of 1..8 items over 0..6, B=6; all sequences of 1..5 over (0,1,2,3,4,5,7,10), B=10",
            "ffd/bfd/bc": "all multisets of 1..11 items over 0..6 (B=6), 1..9 over 0..10 (B=10), 1..8 over 0..12 (B=12), 1..9 over {0,1,3,5,7,10,13,20} (B=20), 1..10 over 1..10 (B=20)",
            "dyadic": "all sequences of 1..7 items over {0,1/8,..,1}, B=1; grain 2**-32: sequences of 1..7",
            "output types": "all 10 on multisets of 1..7 items over 0..6, B=6",
            "halves": "multiples of 1/2 around B/2 and B (B=7, B=10): sequences of 1..7, multisets of 5..10; four fit heuristics",
            "big": "B=2**32, letters {1, 2**31-1, 2**31, 2**31+1, 2**32-1, 2**32}: all sequences of 1..7 (ff/bf), multisets of 1..8 (ffd/bfd/bc); the same letters divided by 2**32 with B=1 (fit heuristics)",
            "count-sweep": "for every m in 1..140: m items of 6 (B=10) alone / with m fours / with fours and threes / with 2m ones: 4 fit heuristics in 3 orders, bin-completion, all output types",
            "long-thin": "multisets of 9..24 items over {1,2} (B=5), 9..16 over {1,2,3} (B=7), 9..14 over {2,3,5} (B=10), 9..14 over {0,1,4} (B=4): ff/bf in 6 fixed orders, ffd/bfd/bc"}


BIG_B = 2 ** 32
BIG_LETTERS = (1, 2 ** 31 - 1, 2 ** 31, 2 ** 31 + 1, 2 ** 32 - 1, 2 ** 32)
LONG_THIN = [((1, 2), 9, 24, 5), ((1, 2, 3), 9, 16, 7), ((2, 3, 5), 9, 14, 10), ((0, 1, 4), 9, 14, 4)]


def tasks(tier):
    q = tier == "quick"
    ts = []
    for ch in spaces.chunked(spaces.sequences(range(0, 7), 1, 5 if q else 8), 2500):
        ts.append(("seq-fit", ch, 6))
    if q:
        for ch in scopes.chunk_multisets(range(0, 11), 1, 6, 400):
            ts.append(("orders-fit", ch, 10))
    else:
        for ch in spaces.chunked(spaces.sequences((0, 1, 2, 3, 4, 5, 7, 10), 1, 5), 2500):
            ts.append(("seq-fit", ch, 10))
    dec = [(range(0, 7), 7, 6), (range(0, 11), 6, 10), (range(1, 11), 8, 20)] if q else \
          [(range(0, 7), 11, 6), (range(0, 11), 9, 10), (range(0, 13), 8, 12), ((0, 1, 3, 5, 7, 10, 13, 20), 9, 20), (range(1, 11), 10, 20)]
    for alpha, N, B in dec:
        for ch in scopes.chunk_multisets(alpha, 1, N, 300):
            ts.append(("ms-dec", ch, B))
        for ch in scopes.chunk_multisets(alpha, 1, N, 120):
            ts.append(("ms-bc", ch, B))
    eighths = [Fraction(i, 8) for i in range(9)]
    for ch in spaces.chunked(spaces.sequences(eighths, 1, 4 if q else 7), 1500):
        ts.append(("dyadic", ch, 1))
    for ch in scopes.chunk_multisets(range(0, 7), 1, 4 if q else 7, 60):
        ts.append(("outs", ch, 6))
    # magnitudes at which a relative tolerance, a float32 or an int32 would bite: near-miss sums around a 2**32 bin,
    # and the same pattern scaled down to fractions with a 2**-32 grain (all exactly representable, all sums exact)
    for ch in spaces.chunked(spaces.sequences(BIG_LETTERS, 1, 4 if q else 7), 400):
        ts.append(("big-fit", ch, BIG_B))
    for ch in scopes.chunk_multisets(BIG_LETTERS, 1, 5 if q else 8, 200):
        ts.append(("ms-dec", ch, BIG_B))
        ts.append(("ms-bc", ch, BIG_B))
    fine = [Fraction(v, BIG_B) for v in BIG_LETTERS]
    for ch in spaces.chunked(spaces.sequences(fine, 1, 4 if q else 7), 400):
        ts.append(("dyadic", ch, 1))
    for Bh, letters in scopes.HALVES.items():          # multiples of 1/2 around B/2 and B, odd and even bin size
        for ch in spaces.chunked(spaces.sequences(letters, 1, 4 if q else 7), 600):
            ts.append(("halves", ch, Bh))
        for ch in scopes.chunk_multisets(letters, 5, 7 if q else 10, 300):
            ts.append(("halves", ch, Bh))
    # many items over tiny alphabets: bins of many items, long scans over many open bins
    for alpha, lo, hi, B in LONG_THIN:
        for ch in scopes.chunk_multisets(alpha, lo, hi if not q else min(hi, lo + 6), 60):
            ts.append(("long-orders", ch, B))
            ts.append(("ms-dec", ch, B))
            ts.append(("ms-bc", ch, B))
    for ch in spaces.chunked(scopes.count_sweep_packing(tier), 12):
        ts.append(("count-sweep", ch, 10))
    return ts


def _one(acc, case, zeros_optional):
    obs = repo.call(case)
    acc.ran(case["algo"]); acc.check()
    acc.outcome(obs[:2])
    for kind, exp, got in judge_packing(case, obs, zeros_optional=zeros_optional):
        acc.violation(case["algo"], cfg_str(case), inp_str(case), kind, exp, got, case)
    return obs


def _outs(acc, algo, items, B):
    """all ten output types agree on the number of bins"""
    counts = {}
    for o in ("BinCount",) + tuple(x for x in scopes.OUTS if x != "BinCount"):
        case = {"algo": algo, "items": items, "B": B, "out": o}
        obs = repo.call(case)
        acc.ran(algo)
        if obs[0] == "exc":
            if not (o in ("LargestSum", "SmallestSum", "ExtremeSums", "Difference") and counts.get("BinCount") == 0):
                acc.violation(algo, cfg_str(case), inp_str(case), "raises", "a result", f"{obs[1]}: {obs[2]}", case)
            continue
        r = obs[1]
        if o == "BinCount": counts[o] = r
        elif o in ("Sums", "SortedSums", "Partition"): counts[o] = len(r)
        elif o == "PartitionAndSumsTuple": counts[o] = len(r[1]); counts[o + ".sums"] = len(r[0])
        elif o == "PartitionAndSums": counts[o] = len(r["lists"]); counts[o + ".sums"] = len(r["sums"])
    acc.check()
    if len(set(counts.values())) > 1:
        case = {"algo": algo, "items": items, "B": B, "out": "BinCount", "all_outs": True}
        acc.violation(algo, "all-output-types", inp_str(case), "bincount_disagrees", "one number of bins", counts, case)


def run_task(task):
    scope, chunk, B = task
    acc = Acc(ID, scope)
    if scope == "count-sweep":
        for items, Bc, m in chunk:
            acc.point(nontrivial=True)
            for order in spaces.fixed_orders(items)[:3]:
                for a in ("ff", "bf", "ffd", "bfd"):
                    _one(acc, {"algo": a, "items": list(order), "B": Bc}, False)
            if 10 * m == sum(items) or m <= 5:          # bin completion: where best-fit-decreasing already meets the volume bound, or small
                _one(acc, {"algo": "bc", "items": list(items), "B": Bc}, True)
            for a in ("ffd", "bf"):
                _outs(acc, a, list(items), Bc)
        acc.sample({"scope": scope, "first": f"{len(chunk[0][0])} items, optimum {chunk[0][2]} bins"})
        return acc
    for it in chunk:
        items = [float(v) for v in it] if scope == "dyadic" else list(it)
        acc.point(nontrivial=(sum(items) > B))
        if scope in ("seq-fit", "dyadic", "big-fit", "halves"):
            algos = ("ff", "bf") if scope not in ("dyadic", "halves") else ("ff", "bf", "ffd", "bfd")
            for a in algos:
                _one(acc, {"algo": a, "items": items, "B": B}, False)
        elif scope in ("orders-fit", "long-orders"):
            first = True
            for order in spaces.fixed_orders(it):
                if not first: acc.point(nontrivial=(sum(items) > B))
                first = False
                for a in ("ff", "bf"):
                    _one(acc, {"algo": a, "items": list(order), "B": B}, False)
        elif scope == "ms-dec":
            for a in ("ffd", "bfd"):
                _one(acc, {"algo": a, "items": items, "B": B}, False)
        elif scope == "ms-bc":
            _one(acc, {"algo": "bc", "items": items, "B": B}, True)
            _one(acc, {"algo": "bc", "items": items[::-1], "B": B}, True)
        elif scope == "outs":
            for a in scopes.PACK_ALGOS:
                _outs(acc, a, items, B)
        if it == chunk[0]:
            acc.sample({"items": [str(v) for v in it] if scope == "dyadic" else items, "binsize": B, "scope": scope})
    return acc


def replay(case, acc):
    if case.get("all_outs"):
        _outs(acc, case["algo"], case["items"], case["B"])
    else:
        _one(acc, case, case["algo"] == "bc")
