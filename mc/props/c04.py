"""
C04 - bin-completion uses the minimum possible number of bins.
Engine E1; oracle = branch-and-bound optimum (mc.oracles.opt_pack), cross-validated against a subset DP.
"""
from .. import repo, scopes, spaces, oracles as O
from ..runner import Acc
from ..judge import cfg_str, inp_str

ID = "C04"
ENGINE = "E1"
LEVEL = "model_checking"
RULE = ("all multisets of 1..N integer items from 1..V for several bin sizes (bins that hold 2, 3 and more items), presented in "
        "descending and ascending order, x output types Partition / Sums / BinCount; oracle: number of bins == exhaustive optimum, "
        "<= first-fit-decreasing and best-fit-decreasing, same count for all three output types. A point is one (multiset, binsize); "
        "non-trivial = best-fit-decreasing is not optimal there (the search has to improve on its starting solution).")
ASSUMPTIONS = ["integer items 1..binsize", "bounds as listed in evidence.coverage.bounds; the search cost of bin-completion grows quickly, larger inputs are not covered"]

QUICK = [(range(1, 11), 8, 20), (range(1, 11), 8, 10), (range(1, 13), 6, 12)]
THOROUGH = [(range(1, 11), 10, 20), (range(1, 11), 9, 10), (range(1, 13), 8, 12), ((3, 7, 11, 13, 17, 19, 23, 29, 31, 37, 41, 50), 7, 50),
            (range(1, 8), 10, 7)]


def bounds(tier):
    return {"planted": "B in {12,20,39,18,13,50} with 6-8 letters each" + ("" if tier == "quick" else " (+ B=39 with 10 letters, B=30 with 9 letters)") + ": every multiset of 3 patterns, " + ("every 5th multiset of 4 patterns" if tier == "quick" else "every multiset of 4 patterns (every 4th for the 9- and 10-letter sets), every 3rd multiset of 5 patterns for B=12 and B=13")
                       + " (a pattern = a partition of B into <=4 letters; optimum = number of patterns), each also with one item reduced by one",
            "scopes": [f"values {min(a)}..{max(a)} ({len(a)} letters), 1..{n} items, binsize {b}" for a, n, b in (QUICK if tier == "quick" else THOROUGH)]}


PLANT = [(12, (2, 3, 4, 5, 6, 7)), (20, (3, 4, 5, 6, 7, 8, 9, 11)), (39, (4, 5, 7, 11, 13, 15, 16, 17)), (18, (2, 3, 5, 6, 7, 9, 12)),
         (13, (2, 3, 4, 5, 6, 7)), (50, (7, 11, 13, 16, 19, 23, 24, 27))]


def _planted(tier):
    """planted perfect packings (every multiset of m patterns, a pattern = a partition of B into <=4 letters: optimum m by
    construction) and their one-unit-lighter variants (one item reduced by 1: total m*B-1, optimum still m)"""
    q = tier == "quick"
    for B, letters in PLANT + ([] if q else [(39, (4, 5, 7, 11, 13, 14, 15, 16, 17, 18)), (30, (3, 4, 5, 7, 8, 9, 11, 12, 13))]):
        for m in ((3, 4) if q else (3, 4, 5)):
            step = 1 if (m == 3 or not q) else 5           # quick: every 5th four-pattern instance (enumeration order)
            if m == 5:
                if B not in (12, 13):                      # five patterns (15-20 items) only for the two small letter sets: search cost
                    continue
                step = 3
            if m == 4 and len(letters) >= 9 and not q:
                step = 4
            for idx, (items, _) in enumerate(spaces.planted(B, letters, m, maxparts=4)):
                if idx % step:
                    continue
                yield items, B, m
                for v in sorted(set(items)):
                    if v > 1:
                        lst = list(items); lst.remove(v); lst.append(v - 1)
                        yield tuple(sorted(lst, reverse=True)), B, m


def tasks(tier):
    ts = []
    for alpha, N, B in (QUICK if tier == "quick" else THOROUGH):
        for ch in scopes.chunk_multisets(alpha, 1, N, 250):
            ts.append((f"B{B}", ch, B))
    for ch in spaces.chunked(_planted(tier), 150):
        ts.append(("planted", ch, None))
    return ts


def _count(obs, o):
    if obs[0] == "exc":
        return None
    r = obs[1]
    if o == "BinCount": return r
    return len(r)


def _one(acc, items, B, known_opt=None):
    counts = {}
    for o in ("Partition", "Sums", "BinCount"):
        case = {"algo": "bc", "items": items, "B": B, "out": o}
        obs = repo.call(case)
        acc.ran("bc")
        if obs[0] == "exc":
            acc.violation("bc", cfg_str(case), inp_str(case), "raises", "a packing", f"{obs[1]}: {obs[2]}", case)
            continue
        counts[o] = _count(obs, o)
        if o == "Partition":
            vals = obs[1]
            if sorted(v for b in vals for v in b) != sorted(items) or any(sum(b) > B for b in vals):
                acc.violation("bc", cfg_str(case), inp_str(case), "infeasible", "a feasible packing of the items", vals, case)
    opt = known_opt if known_opt is not None else O.opt_pack(tuple(sorted(items, reverse=True)), B)
    acc.check()
    base = {"algo": "bc", "items": items, "B": B, "known_opt": known_opt}
    for o, c in counts.items():
        case = dict(base, out=o)
        if c != opt:
            acc.violation("bc", cfg_str(case), inp_str(case), "suboptimal" if c > opt else "below_optimum", f"{opt} bins", f"{c} bins", case)
    acc.outcome((opt, tuple(sorted(counts.items()))))
    return opt


def run_task(task):
    scope, chunk, B = task
    acc = Acc(ID, scope)
    if scope == "planted":
        for items, Bp, m in chunk:
            items = list(items)
            bfd = repo.call({"algo": "bfd", "items": items, "B": Bp, "out": "BinCount"})[1]
            acc.ran("bfd")
            _one(acc, items, Bp, known_opt=m)
            _one(acc, items[::-1], Bp, known_opt=m)
            acc.point(nontrivial=(bfd != m))
        acc.sample({"scope": scope, "items": list(chunk[0][0]), "binsize": chunk[0][1], "optimum (planted)": chunk[0][2]})
        return acc
    for ms in chunk:
        items = list(ms)
        bfd = repo.call({"algo": "bfd", "items": items, "B": B, "out": "BinCount"})[1]
        ffd = repo.call({"algo": "ffd", "items": items, "B": B, "out": "BinCount"})[1]
        acc.ran("bfd"); acc.ran("ffd")
        opt = _one(acc, items, B)
        acc.point(nontrivial=(bfd != opt))
        if opt > min(bfd, ffd):
            acc.violation("oracle", "", inp_str({"items": items, "B": B}), "oracle_above_heuristic", f"<= {min(bfd, ffd)}", opt, None)
        _one(acc, items[::-1], B)
        if ms == chunk[0]:
            acc.sample({"items": items, "binsize": B, "optimum": opt, "bfd": bfd, "ffd": ffd})
    O.opt_pack.cache_clear()
    return acc


def replay(case, acc):
    _one(acc, case["items"], case["B"], known_opt=case.get("known_opt"))
