"""
C04 - bin-completion uses the minimum possible number of bins.
Engine E1; oracle = branch-and-bound optimum (mc.oracles.opt_pack), cross-validated against a subset DP.
"""
from .. import repo, scopes, spaces, oracles as O
from ..runner import Acc
from ..judge import cfg_str, inp_str

ID = "C04"
ENGINE = "E1"
LEVEL = "model_checking"
RULE = ("all multisets of 1..N integer items from 1..V for several bin sizes (bins that hold 2, 3 and more items), presented in "
        "descending and ascending order, x output types Partition / Sums / BinCount; oracle: number of bins == exhaustive optimum, "
        "<= first-fit-decreasing and best-fit-decreasing, same count for all three output types. A point is one (multiset, binsize); "
        "non-trivial = best-fit-decreasing is not optimal there (the search has to improve on its starting solution).")
ASSUMPTIONS = ["integer items 1..binsize", "bounds as listed in evidence.coverage.bounds; the search cost of bin-completion grows quickly, larger inputs are not covered"]

QUICK = [(range(1, 11), 8, 20), (range(1, 11), 8, 10), (range(1, 13), 6, 12)]
THOROUGH = [(range(1, 11), 10, 20), (range(1, 11), 9, 10), (range(1, 13), 8, 12), ((3, 7, 11, 13, 17, 19, 23, 29, 31, 37, 41, 50), 7, 50),
            (range(1, 8), 10, 7)]


def bounds(tier):
    return {"scopes": [f"values {min(a)}..{max(a)} ({len(a)} letters), 1..{n} items, binsize {b}" for a, n, b in (QUICK if tier == "quick" else THOROUGH)]}


def tasks(tier):
    ts = []
    for alpha, N, B in (QUICK if tier == "quick" else THOROUGH):
        for ch in scopes.chunk_multisets(alpha, 1, N, 250):
            ts.append((f"B{B}", ch, B))
    return ts


def _count(obs, o):
    if obs[0] == "exc":
        return None
    r = obs[1]
    if o == "BinCount": return r
    return len(r)


def _one(acc, items, B):
    counts = {}
    for o in ("Partition", "Sums", "BinCount"):
        case = {"algo": "bc", "items": items, "B": B, "out": o}
        obs = repo.call(case)
        acc.ran("bc")
        if obs[0] == "exc":
            acc.violation("bc", cfg_str(case), inp_str(case), "raises", "a packing", f"{obs[1]}: {obs[2]}", case)
            continue
        counts[o] = _count(obs, o)
        if o == "Partition":
            vals = obs[1]
            if sorted(v for b in vals for v in b) != sorted(items) or any(sum(b) > B for b in vals):
                acc.violation("bc", cfg_str(case), inp_str(case), "infeasible", "a feasible packing of the items", vals, case)
    opt = O.opt_pack(tuple(sorted(items, reverse=True)), B)
    acc.check()
    base = {"algo": "bc", "items": items, "B": B}
    for o, c in counts.items():
        case = dict(base, out=o)
        if c != opt:
            acc.violation("bc", cfg_str(case), inp_str(case), "suboptimal" if c > opt else "below_optimum", f"{opt} bins", f"{c} bins", case)
    acc.outcome((opt, tuple(sorted(counts.items()))))
    return opt


def run_task(task):
    scope, chunk, B = task
    acc = Acc(ID, scope)
    for ms in chunk:
        items = list(ms)
        bfd = repo.call({"algo": "bfd", "items": items, "B": B, "out": "BinCount"})[1]
        ffd = repo.call({"algo": "ffd", "items": items, "B": B, "out": "BinCount"})[1]
        acc.ran("bfd"); acc.ran("ffd")
        opt = _one(acc, items, B)
        acc.point(nontrivial=(bfd != opt))
        if opt > min(bfd, ffd):
            acc.violation("oracle", "", inp_str({"items": items, "B": B}), "oracle_above_heuristic", f"<= {min(bfd, ffd)}", opt, None)
        _one(acc, items[::-1], B)
        if ms == chunk[0]:
            acc.sample({"items": items, "binsize": B, "optimum": opt, "bfd": bfd, "ffd": ffd})
    O.opt_pack.cache_clear()
    return acc


def replay(case, acc):
    _one(acc, case["items"], case["B"])
