"""
C15 - calls are pure: inputs untouched, results repeatable, no state across calls.
Engine E4 (DESIGN.md section 2): call-history exploration from a pristine forked interpreter + state-fingerprint closure
+ Eulerian chain from non-initial states + all interleavings of two live generators; plus an E1 sweep for argument
preservation / repeatability / result aliasing.
"""
import os, pickle, copy, itertools
import numpy as np
from .. import repo, scopes, spaces, fingerprint as F
from ..runner import Acc
from ..judge import cfg_str, inp_str

ID = "C15"
ENGINE = "E4"
LEVEL = "model_checking"
RULE = ("(1) sweep: every (input, size, algorithm) of the small partition/packing/covering scopes x {list, numpy array, dict}: the "
        "argument is deep-compared before/after (values, order, dtype), an identical second call must return an identical result, "
        "and the first result object must be unchanged after the second call. "
        "(2) histories: over a call alphabet (every algorithm on colliding inputs, plus failing calls) EVERY ordered pair (c1,c2) is "
        "executed in a fresh process forked from a pristine interpreter that has imported but never called prtpy; the result of c2 "
        "must equal its result as a singleton history. (3) closure: after every singleton history the fingerprint of all prtpy "
        "module state (globals, function defaults/closures, class attributes, singletons, lru caches) is compared with the initial one - "
        "if equal, one abstract state is reachable and results are history-independent for histories of any length over the alphabet "
        "(reported in coverage.explorer.closure; a change of state is an observation, not a violation - the property is about results). "
        "(4) chain: one process executes an Eulerian circuit through all ordered pairs (|A|^2 calls from non-initial states), every "
        "result compared with its singleton reference. (5) generators: for pairs of live generators (CKK generator, inclusion-"
        "exclusion tree, all_combinations) ALL interleavings of their next() steps; each generator's yields must equal its solo run. "
        "(7) aged process: calls with a time limit that is generous by five orders of magnitude are repeated with every clock "
        "that prtpy's modules refer to advanced by 1e6 s (an interpreter started long ago); result must equal the fresh one and the unlimited one. "
        "(6) grid chains: for each family of algorithms that share code, a dense grid of calls in which neighbours differ in ONE "
        "argument (same items with the next bin size / bin count / objective / switch / output type / format) is executed as one long "
        "history in one process, in three visiting orders (forward, reverse, size-major); every result is compared with the result of "
        "the same call in a freshly forked pristine process; a mismatch is minimised to a two-call history where possible. "
        "states = distinct histories / sweep points executed, transitions = real calls; non-trivial = histories of length 2 with two "
        "different calls, interleavings that actually switch generators, sweep points whose result has >= 2 non-empty bins.")
ASSUMPTIONS = ["the fingerprint sees module globals, function defaults/kwdefaults/closure cells, class attributes and instance dicts of prtpy "
               "objects reachable from them; state hidden elsewhere is covered only by the depth-2 sweep and the chain",
               "CBC (python-mip) is warmed up once in the pristine parent through mip directly, not through prtpy"]

import mip as _mip
try:                      # warm-up: loading CBC costs 0.8 s per process; done once here, before any fork, without touching prtpy
    _m = _mip.Model(); _m.verbose = 0; del _m
except Exception:
    pass


# ------------------------------------------------------------------ the call alphabet

def alphabet(tier):
    A = [3, 1, 2, 2, 0]; B = [4, 4, 3]; C = [5, 4, 4, 3, 2, 2]
    calls = [
        {"algo": "greedy", "items": A, "k": 2}, {"algo": "roundrobin", "items": A, "k": 3},
        {"algo": "multifit", "items": A, "k": 2}, {"algo": "kk", "items": A, "k": 3},
        {"algo": "cg", "items": A, "k": 3, "kw": {}},
        {"algo": "cg", "items": A, "k": 2, "kw": {"objective": "MinimizeLargestSum", "use_heuristic_3": True}},
        {"algo": "cg", "items": C, "k": 3, "kw": {"objective": "MaximizeSmallestSum", "use_set_of_seen_states": False}},
        {"algo": "ckk", "items": A, "k": 3}, {"algo": "ckk", "items": C, "k": 3},
        {"algo": "snp", "items": C, "k": 3}, {"algo": "snp", "items": A, "k": 3},
        {"algo": "rnp", "items": C, "k": 4}, {"algo": "rnp", "items": C, "k": 3},
        {"algo": "dp", "items": A, "k": 2, "kw": {"objective": "MinimizeDifference"}},
        {"algo": "dp", "items": B, "k": 3, "kw": {"objective": "MaximizeSmallestSum"}},
        {"algo": "ilp", "items": B, "k": 2, "kw": {}},
        {"algo": "ilp", "items": A, "k": 3, "kw": {"copies": 2, "objective": "MinimizeLargestSum"}},
        {"algo": "cbldm", "items": A, "k": 2}, {"algo": "cbldm", "items": C, "k": 2, "kw": {"partition_difference": 1}},
        {"algo": "ff", "items": [3, 4, 2, 1], "B": 6}, {"algo": "ffd", "items": [3, 4, 2, 1], "B": 6},
        {"algo": "bf", "items": [3, 4, 2, 1, 3], "B": 6}, {"algo": "bfd", "items": C, "B": 10},
        {"algo": "bc", "items": C, "B": 10}, {"algo": "bc", "items": [8, 7, 7, 6, 4, 4, 4], "B": 20, "fmt": "dict_str"},
        {"algo": "decreasing", "items": [5, 3, 3, 2, 1, 1], "B": 6}, {"algo": "twothirds", "items": [5, 3, 3, 2, 1, 1], "B": 6},
        {"algo": "threequarters", "items": [5, 3, 3, 2, 2, 1, 1], "B": 6},
        {"algo": "threequarters", "items": [5, 3, 3, 2, 2, 1, 1], "B": 6, "fmt": "dict_str"},
        {"algo": "greedy", "items": A, "k": 2, "fmt": "dict_str"}, {"algo": "ckk", "items": A, "k": 3, "fmt": "dict_int"},
        # sums-only bins-manager (cheaper output types)
        {"algo": "ckk", "items": C, "k": 3, "out": "Sums"}, {"algo": "ckk", "items": A, "k": 2, "out": "Difference"},
        {"algo": "snp", "items": C, "k": 3, "out": "Sums"}, {"algo": "rnp", "items": C, "k": 4, "out": "SortedSums"},
        {"algo": "cg", "items": C, "k": 3, "out": "Sums", "kw": {}}, {"algo": "kk", "items": A, "k": 3, "out": "Sums"},
        {"algo": "bc", "items": C, "B": 10, "out": "BinCount"}, {"algo": "twothirds", "items": [5, 3, 3, 2, 1, 1], "B": 6, "out": "Sums"},
        # a perfect Karmarkar-Karp start (the searches return before their main loop), one-bin requests
        {"algo": "snp", "items": [4, 4, 2, 2], "k": 2}, {"algo": "rnp", "items": [3, 3, 3], "k": 3}, {"algo": "ckk", "items": A, "k": 1},
        {"algo": "snp", "items": C, "k": 1}, {"algo": "cg", "items": A, "k": 1, "kw": {}},
        # calls aborted after an exactly filled bin
        {"algo": "bf", "items": [6, 4, 7, 11], "B": 10}, {"algo": "ff", "items": [3, 3, 2, 9], "B": 6}, {"algo": "bf", "items": [6, 4, 7, 3], "B": 10},
        # failing calls
        {"algo": "ff", "items": [3, 9], "B": 6}, {"algo": "bc", "items": [3, 9, 2], "B": 6},
        {"algo": "cbldm", "items": A, "k": 3}, {"algo": "cbldm", "items": [3, -1], "k": 2},
        {"algo": "ilp", "items": [2, 2], "k": 2, "kw": {"additional_constraints": ["eq0", 1]}},
        {"algo": "rnp", "items": [3, 2, 1], "k": 6},
    ]
    if tier == "thorough":
        D = [6, 5, 5, 4, 3, 3, 1]
        calls += [
            {"algo": "greedy", "items": D, "k": 3}, {"algo": "kk", "items": D, "k": 4}, {"algo": "multifit", "items": D, "k": 3},
            {"algo": "roundrobin", "items": D, "k": 2},
            {"algo": "cg", "items": D, "k": 3, "kw": {"objective": "MinimizeDifference", "use_lower_bound": False}},
            {"algo": "cg", "items": D, "k": 4, "kw": {"objective": "MaximizeKSmallestSums(2)"}},
            {"algo": "ckk", "items": D, "k": 4}, {"algo": "snp", "items": D, "k": 4}, {"algo": "rnp", "items": D, "k": 5},
            {"algo": "dp", "items": D[:5], "k": 3, "kw": {"objective": "MinimizeKLargestSums(2)"}},
            {"algo": "ilp", "items": D[:5], "k": 3, "kw": {"weights": [1, 2, 3], "objective": "MaximizeSmallestSum"}},
            {"algo": "ilp", "items": D[:4], "k": 2, "kw": {"additional_constraints": ["le_last", 11]}},
            {"algo": "cbldm", "items": D, "k": 2, "kw": {"partition_difference": 2}},
            {"algo": "ff", "items": D, "B": 9}, {"algo": "bf", "items": D, "B": 9}, {"algo": "ffd", "items": D, "B": 9},
            {"algo": "bfd", "items": D, "B": 9, "fmt": "names"}, {"algo": "bc", "items": D, "B": 9},
            {"algo": "bc", "items": [10, 10, 9, 9, 8, 7, 3, 3], "B": 20},
            {"algo": "decreasing", "items": D, "B": 7, "fmt": "dict_int"}, {"algo": "twothirds", "items": D, "B": 7},
            {"algo": "threequarters", "items": D, "B": 9},
            {"algo": "snp", "items": D, "k": 3, "fmt": "dict_str"}, {"algo": "dp", "items": B, "k": 2, "fmt": "array"},
            {"algo": "bfd", "items": [3, 9], "B": 6}, {"algo": "cbldm", "items": A, "k": 2, "kw": {"partition_difference": 0}},
        ]
    for c in calls:
        c.setdefault("out", "PartitionAndSumsTuple")
    return calls


# ------------------------------------------------------------------ running histories in pristine children

def _execute_history(calls):
    """runs in a freshly forked child: fingerprint, then each call with argument snapshot, fingerprint after each"""
    out = {"fp0": F.fingerprint(), "steps": []}
    for c in calls:
        obs = repo.call(c)
        out["steps"].append({"obs": (obs[0], obs[1]) if obs[0] == "ok" else obs, "fp": F.fingerprint()})
    return out


def _in_child(fn, *args):
    r, w = os.pipe()
    pid = os.fork()
    if pid == 0:
        code = 0
        try:
            os.close(r)
            try:
                data = pickle.dumps(("ok", fn(*args)))
            except BaseException as e:
                import traceback
                data = pickle.dumps(("err", f"{type(e).__name__}: {e}\n{traceback.format_exc()}"))
            with os.fdopen(w, "wb") as f:
                f.write(data)
        except BaseException:
            code = 1
        finally:
            os._exit(code)
    os.close(w)
    with os.fdopen(r, "rb") as f:
        data = f.read()
    os.waitpid(pid, 0)
    if not data:
        raise RuntimeError("child died without output")
    tag, val = pickle.loads(data)
    if tag == "err":
        raise RuntimeError("child failed: " + val)
    return val


_TOUCHED = [False]     # set once this process has called prtpy itself (sweep); history workers must be pristine


def run_histories(arg):
    """worker (stays pristine: never calls prtpy itself).  arg = (tier, [index tuples])  -> list of (indices, result)"""
    tier, batch = arg
    assert not _TOUCHED[0], "history worker is not pristine"
    A = alphabet(tier)
    return {"hist": [(idx, _in_child(_execute_history, [A[i] for i in idx])) for idx in batch]}


def _label(c):
    return f"{c['algo']}[{cfg_str(c)}]({inp_str(c)})"


def _eulerian(n):
    """Eulerian circuit of the complete digraph with self-loops on n vertices (Hierholzer): every ordered pair adjacent once."""
    nxt = [0] * n
    stack, circuit = [0], []
    while stack:
        v = stack[-1]
        if nxt[v] < n:
            u = nxt[v]; nxt[v] += 1
            stack.append(u)
        else:
            circuit.append(stack.pop())
    circuit.reverse()
    return circuit


def run_chain(arg):
    tier, _ = arg
    A = alphabet(tier)
    circuit = _eulerian(len(A))
    return {"chain": _in_child(_execute_history, [A[i] for i in circuit]), "circuit": circuit}


# ------------------------------------------------------------------ generator interleavings

_SHARED = {}


def _gen_factories():
    ckk = repo.ckk_mod
    P = repo.prtpy
    vals = {"p": 1, "q": 1, "r": 2, "s": 3}

    def g_ckk1(): return ckk.generator(P.BinnerKeepingContents(), 3, [5, 4, 3, 3, 2, 1])
    def g_ckk2(): return ckk.generator(P.BinnerKeepingSums(), 2, [7, 5, 4, 3, 1])
    def g_ckk3(): return ckk.generator(P.BinnerKeepingContents(lambda x: vals[x]), 2, ["p", "q", "r", "s"], best_difference_so_far=-4)
    def g_tree1(): return repo.tree_mod.InExclusionBinTree([3, 2, 2, 1], lambda x: x, upper_bound=4, lower_bound=2).generate_tree()
    def g_tree2(): return repo.tree_mod.InExclusionBinTree(list(vals), vals.__getitem__, upper_bound=3, lower_bound=1).generate_tree()
    def g_comb1(): return P.BinnerKeepingContents().all_combinations(([1, 1, 2], [[1], [1], [2]]), ([0, 3, 3], [[], [3], [3]]))
    def g_comb2(): return P.BinnerKeepingSums().all_combinations([1, 2, 3], [4, 5, 6])
    # two enumerations alive at once on ONE bins-manager object (nested loops, zip, a saved generator resumed later)
    SB = _SHARED.setdefault("sums", P.BinnerKeepingSums())
    CB = _SHARED.setdefault("contents", P.BinnerKeepingContents())
    def g_comb3(): return SB.all_combinations([1, 1, 2], [0, 0, 3])
    def g_comb4(): return SB.all_combinations([1, 1, 5], [0, 0, 7])
    def g_comb5(): return CB.all_combinations(([1, 1, 2], [[1], [1], [2]]), ([0, 3, 3], [[], [3], [3]]))
    def g_comb6(): return CB.all_combinations(([2, 2], [[2], [1, 1]]), ([1, 1], [[1], [1]]))
    return [("comb-sums-shared-a", g_comb3), ("comb-sums-shared-b", g_comb4), ("comb-contents-shared-a", g_comb5), ("comb-contents-shared-b", g_comb6)] + [("ckk3way", g_ckk1), ("ckk2way-sums", g_ckk2), ("ckk-bounded-named", g_ckk3), ("tree-values", g_tree1),
            ("tree-named", g_tree2), ("comb-contents", g_comb1), ("comb-sums", g_comb2)]


def _snap(y):
    return copy.deepcopy(repo._plain(y))


def _solo(factory):
    out = []
    g = factory()
    while True:
        try:
            out.append(("y", _snap(next(g))))
        except StopIteration:
            out.append(("stop",)); break
        except Exception as e:
            out.append(("exc", type(e).__name__)); break
    return out


def _interleavings(a, b):
    """all sequences with a zeros and b ones"""
    for pos in itertools.combinations(range(a + b), a):
        s = [1] * (a + b)
        for p in pos: s[p] = 0
        yield s


def run_generators(arg):
    """one pair of generator kinds, all interleavings, in a forked child"""
    i, j = arg
    return {"gen": _in_child(_run_generators_child, i, j), "pair": (i, j)}


def _run_generators_child(i, j):
    fac = _gen_factories()
    (n1, f1), (n2, f2) = fac[i], fac[j]
    solo = (_solo(f1), _solo(f2))
    la, lb = len(solo[0]), len(solo[1])
    bad = []; count = 0; switches = 0
    MAXLEN = 7
    la2, lb2 = min(la, MAXLEN), min(lb, MAXLEN)
    for sched in _interleavings(la2, lb2):
        count += 1
        switches += sum(1 for t in range(1, len(sched)) if sched[t] != sched[t - 1]) > 1
        gens = (f1(), f2())
        seen = ([], [])
        for who in sched:
            try:
                seen[who].append(("y", _snap(next(gens[who]))))
            except StopIteration:
                seen[who].append(("stop",))
            except Exception as e:
                seen[who].append(("exc", type(e).__name__))
        for who in (0, 1):
            if seen[who] != solo[who][:len(seen[who])]:
                bad.append({"pair": (n1, n2), "schedule": sched, "generator": (n1, n2)[who],
                            "solo": repr(solo[who][:len(seen[who])])[:300], "interleaved": repr(seen[who])[:300]})
                break
        if len(bad) >= 3:
            break
    return {"names": (n1, n2), "interleavings": count, "with_real_switching": switches, "steps": (la2, lb2),
            "solo_yields": (la - 1, lb - 1), "bad": bad}



# ------------------------------------------------------------------ (6) grid chains: long histories over dense collision families

def grid_families(tier):
    """family name -> list of calls.  Within a family the calls differ from their neighbours in ONE argument (same items with the
    next size, same items and size with the next algorithm / objective / switch / output type / format), so that any state kept
    across calls under a key that omits an argument is hit by a colliding later call.  Families group algorithms that share code."""
    q = tier == "quick"
    fam = {}
    P = list(spaces.multisets((0, 1, 2, 3, 5), 4, 5 if q else 6))
    ks = (2, 3)
    f1, f2, fdp, fcb = [], [], [], []
    for idx, ms in enumerate(P):
        items = list(scopes.scramble(ms))
        fmts = ("list", "dict_str") if idx % 4 == 0 else ("list",)
        for fmt in fmts:
            for k in ks:
                for a in ("greedy", "roundrobin", "multifit", "kk"):
                    f1.append({"algo": a, "items": items, "k": k, "fmt": fmt})
                f1.append({"algo": "cg", "items": items, "k": k, "fmt": fmt, "kw": {"objective": "MinimizeDifference", "time_limit": 1e-9}})
                for o in scopes.CG_OBJECTIVES:
                    for sw in ({}, {"use_set_of_seen_states": False, "use_lower_bound": False}):
                        for out in ("PartitionAndSumsTuple", "Sums"):
                            f1.append({"algo": "cg", "items": items, "k": k, "fmt": fmt, "out": out, "kw": dict(sw, objective=o)})
                for a in ("kk", "ckk", "snp", "rnp"):
                    for out in ("PartitionAndSumsTuple", "Sums"):
                        f2.append({"algo": a, "items": items, "k": k, "fmt": fmt, "out": out})
            if fmt == "list":
                for a in ("ckk", "snp", "kk"):
                    f2.append({"algo": a, "items": items, "k": 1, "fmt": fmt, "out": "Sums"})
                if k ** len(items) <= 1100:
                    for o in scopes.CG_OBJECTIVES:
                        fdp.append({"algo": "dp", "items": items, "k": k, "fmt": fmt, "kw": {"objective": o}})
            for d in (None, 1, 2):
                kwd = {} if d is None else {"partition_difference": d}
                # a call cut off at once (the limit has passed at the first test: deterministic), then the same call without limit
                fcb.append({"algo": "cbldm", "items": items, "k": 2, "fmt": fmt, "kw": dict(kwd, time_limit=1e-9)})
                fcb.append({"algo": "cbldm", "items": items, "k": 2, "fmt": fmt, "kw": kwd})
    # a long prelude of heuristic calls on large inputs (a process-wide counter or budget is spent by ANY earlier work)
    bulk = [{"algo": "kk", "items": [(i * 37 + j) % 101 + 1 for i in range(9000 + j)], "k": 2, "out": "Sums"} for j in range(90 if q else 300)]
    bulk += [{"algo": "kk", "items": [(i * 53 + j) % 211 + 1 for i in range(6000)], "k": 3 + j % 3, "out": "Sums"} for j in range(60 if q else 300)]
    f2 = bulk + f2
    fam["balance+cg"] = f1; fam["kk-ckk-snp-rnp"] = f2; fam["dp"] = fdp; fam["cbldm"] = fcb
    filp = []
    for ms in spaces.multisets((1, 2, 3), 3, 3):
        for k in ks:
            for o in ("MinimizeDifference", "MaximizeSmallestSum"):
                for cp in (1, 2):
                    filp.append({"algo": "ilp", "items": list(ms), "k": k, "kw": {"objective": o, "copies": cp}})
    fam["ilp"] = filp
    ffit = []
    for idx, ms in enumerate(spaces.multisets((2, 3, 4, 5, 7), 4, 6 if q else 7)):
        items = list(scopes.scramble(ms))
        fmts = ("list", "dict_str") if idx % 6 == 0 else ("list",)
        for fmt in fmts:
            for B in (9, 10, 11):
                if fmt == "list" and idx % 3 == 0:
                    # a call that is refused half-way (an oversize item arrives after earlier placements, some of them exact
                    # fills), then the ordinary calls: nothing of the aborted call may survive
                    for a in ("ff", "bf", "bc"):
                        ffit.append({"algo": a, "items": sorted(items, reverse=True)[:3] + [B - sorted(items, reverse=True)[0]] + [B + 1] + items[:2], "B": B, "fmt": fmt})
                for a in ("ff", "ffd", "bf", "bfd"):
                    ffit.append({"algo": a, "items": items, "B": B, "fmt": fmt})
                for out in ("PartitionAndSumsTuple", "Sums"):
                    ffit.append({"algo": "bc", "items": items, "B": B, "fmt": fmt, "out": out})
    fam["fit+bin-completion"] = ffit
    fcov = []
    for idx, ms in enumerate(spaces.multisets((1, 2, 3, 4, 5, 7), 3, 5 if q else 6)):
        items = list(scopes.scramble(ms))
        fmts = ("list", "dict_str") if idx % 6 == 0 else ("list",)
        for fmt in fmts:
            for B in (6, 7, 8):
                for a in scopes.COVER_ALGOS:
                    fcov.append({"algo": a, "items": items, "B": B, "fmt": fmt})
    fam["covering"] = fcov
    # the caller keeps ONE names list, ONE value table and ONE value function and changes the values in place between calls
    fsh = []
    for n in (4, 5):
        vals = [scopes.scramble(ms) for ms in spaces.multisets((1, 2, 3, 5), n, n)]
        for a in ("greedy", "multifit", "kk", "ckk", "snp", "cbldm"):
            for v in vals:
                fsh.append({"algo": a, "items": list(v), "k": 2 if a == "cbldm" else 3, "fmt": "names_shared"})
        for o in scopes.CG_OBJECTIVES:
            for v in vals:
                fsh.append({"algo": "cg", "items": list(v), "k": 2, "fmt": "names_shared", "kw": {"objective": o}})
        for a in scopes.PACK_ALGOS + scopes.COVER_ALGOS:
            for v in vals:
                fsh.append({"algo": a, "items": list(v), "B": 6, "fmt": "names_shared"})
    # ... and ONE dict object passed as `items`, its values changed in place between calls
    fds = []
    for n in (4, 5):
        vals = [scopes.scramble(ms) for ms in spaces.multisets((1, 2, 3, 5), n, n)]
        for a in ("greedy", "multifit", "kk", "ckk", "dp"):
            for v in vals:
                fds.append({"algo": a, "items": list(v), "k": 3, "fmt": "dict_shared", "kw": {"objective": "MinimizeDifference"} if a == "dp" else {}})
        for a in scopes.PACK_ALGOS + scopes.COVER_ALGOS:
            for v in vals:
                fds.append({"algo": a, "items": list(v), "B": 6, "fmt": "dict_shared"})
                fds.append({"algo": a, "items": list(v), "B": 6, "fmt": "dict_shared", "out": "Sums"})
    # ... and ONE list object passed as `items`, overwritten in place (same length, then another length) between calls
    for n in (4, 5, 4):
        vals = [scopes.scramble(ms) for ms in spaces.multisets((1, 2, 3, 5), n, n)]
        for a in ("cbldm", "greedy", "kk", "ckk", "snp", "dp"):
            for v in vals:
                fds.append({"algo": a, "items": list(v), "k": 2 if a == "cbldm" else 3, "fmt": "list_shared", "kw": {"objective": "MinimizeDifference"} if a == "dp" else {}})
        for o in scopes.CG_OBJECTIVES:
            for v in vals:
                fds.append({"algo": "cg", "items": list(v), "k": 2, "fmt": "list_shared", "kw": {"objective": o}})
        for a in scopes.PACK_ALGOS + scopes.COVER_ALGOS:
            for v in vals:
                fds.append({"algo": a, "items": list(v), "B": 6, "fmt": "list_shared"})
    fam["shared-valueof"] = fsh
    fam["shared-containers"] = fds
    # one objective OBJECT per parameterised objective, re-used by calls with fewer bins than its parameter and with more
    fko = []
    for ms in spaces.multisets((1, 2, 3, 5), 5, 5):
        items = list(scopes.scramble(ms))
        for spec in ("MinimizeKLargestSums(3)", "MaximizeKSmallestSums(3)", "MinimizeKLargestSums(2)", "MaximizeKSmallestSums(2)"):
            for k in (2, 4, 1, 3):
                fko.append({"algo": "cg", "items": items, "k": k, "kw": {"objective": spec}, "out": "Sums"})
                fko.append({"algo": "dp", "items": items, "k": k, "kw": {"objective": spec}, "out": "Sums"})
    fam["k-objectives"] = fko
    # bin completion on longer inputs (its search state is richer there), the same items under several bin sizes
    fbc = []
    for ms in spaces.multisets((6, 7, 8, 9, 10, 2), 11, 11):
        if len(set(ms)) < 5 or ms.count(2) > 2:
            continue
        items = list(scopes.scramble(ms))
        for B in ((19, 11, 20, 12) if q else (19, 11, 20, 12, 18, 13, 21)):
            fbc.append({"algo": "bc", "items": items, "B": B, "out": "Sums"})
    fam["bin-completion-long"] = fbc if not q else fbc[: 4 * 150]
    for calls in fam.values():
        for c in calls:
            c.setdefault("out", "PartitionAndSumsTuple")
    return fam


def _size_major(calls):
    """a second visiting order: all inputs for one (algorithm, configuration, size) before the next size"""
    def key(ic):
        i, c = ic
        return (c["algo"], cfg_str(c), c.get("k", c.get("B")), i)
    return [i for i, _ in sorted(enumerate(calls), key=key)]


def grid_orders(n, calls):
    return {"forward": list(range(n)), "reverse": list(range(n - 1, -1, -1)), "size-major": _size_major(calls)}


def _obs_of(c):
    obs = repo.call(c)
    return (obs[0], obs[1]) if obs[0] == "ok" else obs


def run_grid_refs(arg):
    """pristine worker: one fresh fork per call -> reference observations (history-free by construction)"""
    tier, family, lo, hi = arg
    assert not _TOUCHED[0], "reference worker is not pristine"
    calls = grid_families(tier)[family]
    return {"refs": [(i, _in_child(_obs_of, calls[i])) for i in range(lo, hi)], "family": family}


def _grid_chain_child(calls, order, refs):
    repo.SHARE_OBJECTIVES[0] = True
    bad = None
    n = 0
    for pos, i in enumerate(order):
        o = _obs_of(calls[i]); n += 1
        if o != refs[i]:
            bad = {"pos": pos, "index": i, "expected": refs[i], "observed": o}
            break
    return {"executed": n, "bad": bad}


def _pair_obs(a, b):
    repo.SHARE_OBJECTIVES[0] = True
    _obs_of(a)
    return _obs_of(b)


def _seq_last(cs):
    repo.SHARE_OBJECTIVES[0] = True
    return [_obs_of(c) for c in cs][-1]


def run_grid_chain(arg):
    tier, family, oname, refs = arg
    assert not _TOUCHED[0], "chain worker is not pristine"
    calls = grid_families(tier)[family]
    order = grid_orders(len(calls), calls)[oname]
    res = _in_child(_grid_chain_child, calls, order, refs)
    bad = res["bad"]
    if bad is not None:
        # minimise: is one earlier call enough to disturb it?  (every earlier call is tried as a depth-2 history)
        t = bad["index"]
        for pos in range(bad["pos"] - 1, -1, -1):
            j = order[pos]
            o = _in_child(_pair_obs, calls[j], calls[t])
            if o != refs[t]:
                bad["pair"] = [j, t]
                break
    return {"grid": res, "family": family, "order": oname, "n": len(calls)}


# ------------------------------------------------------------------ (7) aged process: a generous time limit in an old interpreter

def aged_calls():
    """calls with a time limit that is generous by five orders of magnitude (1e5 s against milliseconds of work)"""
    A = [3, 1, 2, 2, 0]; C = [5, 4, 4, 3, 2, 2]
    T = 10 ** 5
    return [{"algo": "ilp", "items": [4, 4, 3], "k": 2, "kw": {"time_limit": T}},
            {"algo": "ilp", "items": A, "k": 3, "kw": {"time_limit": T, "objective": "MaximizeSmallestSum"}},
            {"algo": "ilp", "items": C, "k": 3, "kw": {"time_limit": T, "copies": 2}},
            {"algo": "cg", "items": C, "k": 3, "kw": {"time_limit": T}},
            {"algo": "cg", "items": A, "k": 2, "kw": {"time_limit": T, "objective": "MinimizeLargestSum"}},
            {"algo": "cbldm", "items": C, "k": 2, "kw": {"time_limit": T}},
            {"algo": "cbldm", "items": A, "k": 2, "kw": {"time_limit": T, "partition_difference": 1}}]


def _aged_child(call):
    from ..clock import aged_process
    fresh = _obs_of(dict(call, out="PartitionAndSumsTuple"))
    with aged_process(1e6):
        aged = _obs_of(dict(call, out="PartitionAndSumsTuple"))
    nolimit = _obs_of(dict(call, out="PartitionAndSumsTuple", kw={k: v for k, v in call["kw"].items() if k != "time_limit"}))
    return fresh, aged, nolimit


def run_aged(arg):
    i = arg
    assert not _TOUCHED[0], "worker is not pristine"
    return {"aged": _in_child(_aged_child, aged_calls()[i]), "index": i}


# ------------------------------------------------------------------ (1) sweep: arguments, repeatability, result aliasing

def _raw_call(case, items, valueof):
    fn = repo.ALGOS[case["algo"]]
    ot = repo.OUTPUTTYPES["PartitionAndSumsTuple"]
    kwargs = repo.build_kwargs(case.get("kw"))
    try:
        if case["algo"] in repo.PARTITIONERS:
            return ("ok", repo.prtpy.partition(algorithm=fn, numbins=case["k"], items=items, valueof=valueof, outputtype=ot, **kwargs))
        return ("ok", repo.prtpy.pack(algorithm=fn, binsize=case["B"], items=items, valueof=valueof, outputtype=ot, **kwargs))
    except Exception as e:
        return ("exc", type(e).__name__, str(e)[:150])


def _snapshot_arg(items):
    if isinstance(items, np.ndarray):
        return ("nd", str(items.dtype), items.shape, items.tolist(), items.flags.writeable)
    if isinstance(items, dict):
        return ("dict", [(k, v, type(v).__name__) for k, v in items.items()])
    return ("list", [(v, type(v).__name__) for v in items])


def sweep(arg):
    scope, chunk, size = arg
    _TOUCHED[0] = True
    acc = Acc(ID, "sweep-" + scope)
    for it in chunk:
        if scope == "partition":
            cases = []
            for k in size:
                for algo, kw in scopes.partition_algos_for(len(it), k, "quick", 5):
                    if algo == "rnp" and k >= 6: continue
                    cases.append({"algo": algo, "items": list(it), "k": k, "kw": kw})
                for o in scopes.CG_OBJECTIVES:
                    cases.append({"algo": "cg", "items": list(it), "k": k, "kw": {"objective": o}})
                if len(it) <= 3 and k <= 3:
                    cases.append({"algo": "ilp", "items": list(it), "k": k, "kw": {}})
                    if k == 2:      # options given as containers: they are the caller's objects too
                        cases.append({"algo": "ilp", "items": list(it), "k": k, "kw": {"copies": [1 + (j % 2) for j in range(len(it))]}})
                        cases.append({"algo": "ilp", "items": list(it), "k": k, "kw": {"weights": [1, 2], "objective": "MaximizeSmallestSum"}})
        elif scope == "packing":
            cases = [{"algo": a, "items": list(it), "B": size} for a in scopes.PACK_ALGOS]
        else:
            cases = [{"algo": a, "items": list(it), "B": size} for a in scopes.COVER_ALGOS]
        if scope != "packing":     # multisets come in non-increasing order: present them scrambled, or an in-place sort is invisible
            orders = spaces.fixed_orders(it)
            alt = [o for o in (orders[2:3] + orders[0:1]) if list(o) != list(it)][:1]
            cases = cases + [dict(c, items=list(o)) for o in alt for c in cases]
        for base in cases:
            for fmt in ("list", "array", "dict_str"):
                case = dict(base, fmt=fmt)
                items, valueof, d = repo.present(case["items"], fmt)
                before = _snapshot_arg(items)
                kw_before = repr(case.get("kw"))
                r1 = _raw_call(case, items, valueof)
                after1 = _snapshot_arg(items)
                if repr(case.get("kw")) != kw_before:
                    acc.violation(case["algo"], cfg_str(case), inp_str(case), "option_container_modified", kw_before, repr(case.get("kw")), dict(case, part="sweep", kw=eval(kw_before)))
                    case = dict(case, kw=eval(kw_before))
                p1 = repo._plain(copy.deepcopy(r1))
                r2 = _raw_call(case, items, valueof)
                after2 = _snapshot_arg(items)
                p2 = repo._plain(r2)
                acc.ran(case["algo"], 2); acc.check()
                if before != after1 or before != after2:
                    acc.violation(case["algo"], cfg_str(case), inp_str(case), "argument_modified", before, after2 if before != after2 else after1, dict(case, part="sweep"))
                if p1 != p2:
                    acc.violation(case["algo"], cfg_str(case), inp_str(case), "second_identical_call_differs", p1, p2, dict(case, part="sweep"))
                if repo._plain(r1) != p1:
                    acc.violation(case["algo"], cfg_str(case), inp_str(case), "earlier_result_changed_by_later_call", p1, repo._plain(r1), dict(case, part="sweep"))
                nt = r1[0] == "ok" and r1[1] is not None and sum(1 for b in r1[1][1] if len(b)) >= 2
                acc.point(nontrivial=bool(nt))
                acc.outcome(p1)
    acc.sample({"part": "sweep", "scope": scope, "first": list(chunk[0])})
    return acc.result()


# ------------------------------------------------------------------ explorer

EXPLORER_STATS = None


def bounds(tier):
    n = len(alphabet(tier))
    return {"alphabet": n, "depth-2 histories": n * n, "singletons": n, "chain length": n * n + 1,
            "generator pairs": "all unordered pairs (with repetition) of 11 generator kinds (four of them enumerate on one shared bins-manager object per manager), all interleavings of <=7 steps each",
            "grid chains": {f: len(c) for f, c in grid_families(tier).items()},
            "sweep": "partition values 0..4, 1..4 items, k=1..3; packing all sequences 1..4 over 0..6 (B=6); covering multisets 1..5 over 1..9 (B=6); x list/array/dict"}


def explore(tier, seed, pmap):
    global EXPLORER_STATS
    A = alphabet(tier)
    n = len(A)
    stats = {"alphabet": [_label(c) for c in A]}
    # ---- singletons (references + closure)
    singles = [(i,) for i in range(n)]
    batches = [(tier, singles[i:i + 4]) for i in range(0, n, 4)]
    ref = {}
    acc = Acc(ID, "closure")
    fp0 = None
    closure_lost = set()
    for res in pmap("run_histories", batches):
        if "harness_error" in res:
            yield res; return
        for idx, h in res["hist"]:
            i = idx[0]
            ref[i] = h["steps"][0]["obs"]
            acc.point(nontrivial=True); acc.ran(A[i]["algo"]); acc.check()
            if fp0 is None: fp0 = h["fp0"]
            if h["fp0"] != fp0:
                acc.violation("harness", "", _label(A[i]), "initial_fingerprint_varies", "identical pristine states", F.diff(fp0, h["fp0"]), None)
            d = F.diff(h["fp0"], h["steps"][0]["fp"])
            for lab in F.ENV_THAT_CHANGES_RESULTS:
                if lab in d:
                    # numpy's error mode / warnings-as-errors left changed: what later arithmetic does (in prtpy and in the
                    # caller's own code) now depends on this call having been made
                    acc.violation(A[i]["algo"], cfg_str(A[i]), inp_str(A[i]), "numeric_environment_left_changed_by_call", d[lab][0], d[lab][1],
                                  {"part": "env", "tier": tier, "history": [i]})
            if d:
                # state kept across calls is not by itself a violation (a cache with a complete key leaves every result
                # unchanged): it voids the one-abstract-state argument, which evidence then says, and the decision rests on
                # the explored histories (depth 2, alphabet chain, grid chains over colliding calls)
                acc.note("closure_lost: module state changed by a call")
                for lab in d:
                    closure_lost.add(lab)
            acc.outcome(ref[i])
    stats["fingerprint_entries"] = len(fp0 or {})
    stats["closure"] = ("holds: every call of the alphabet maps the fingerprinted module state to itself - one reachable abstract state"
                        if not closure_lost else
                        "LOST: calls change module state " + ", ".join(sorted(closure_lost)[:8]) + " - history independence is established only for the explored histories")
    acc.sample({"part": "closure", "call": _label(A[0]), "fingerprint_entries": len(fp0 or {})})
    yield acc.result()
    # ---- all ordered pairs from the initial state
    pairs = [(i, j) for i in range(n) for j in range(n)]
    if seed:
        r = seed % len(pairs); pairs = pairs[r:] + pairs[:r]
    size = max(1, len(pairs) // 128)
    batches = [(tier, pairs[i:i + size]) for i in range(0, len(pairs), size)]
    acc = Acc(ID, "depth2")
    for res in pmap("run_histories", batches):
        if "harness_error" in res:
            yield res; return
        for (i, j), h in res["hist"]:
            acc.point(nontrivial=(i != j)); acc.ran(A[i]["algo"]); acc.ran(A[j]["algo"]); acc.check()
            o1, o2 = h["steps"][0]["obs"], h["steps"][1]["obs"]
            if o1 != ref[i]:
                acc.violation(A[i]["algo"], cfg_str(A[i]), inp_str(A[i]), "not_reproducible_from_pristine_state", ref[i], o1,
                              {"part": "history", "tier": tier, "history": [i]})
            if o2 != ref[j]:
                acc.violation(A[j]["algo"], cfg_str(A[j]), inp_str(A[j]) + " after " + _label(A[i]), "result_depends_on_previous_call",
                              ref[j], o2, {"part": "history", "tier": tier, "history": [i, j]})
    acc.sample({"part": "depth2", "history": [_label(A[1]), _label(A[0])]})
    yield acc.result()
    # ---- chain from non-initial states
    acc = Acc(ID, "chain")
    for res in pmap("run_chain", [(tier, None)]):
        if "harness_error" in res:
            yield res; return
        circuit = res["circuit"]
        steps = res["chain"]["steps"]
        stats["chain_calls"] = len(circuit)
        for t, (i, st) in enumerate(zip(circuit, steps)):
            acc.point(nontrivial=(t > 0)); acc.ran(A[i]["algo"]); acc.check()
            if st["obs"] != ref[i]:
                acc.violation(A[i]["algo"], cfg_str(A[i]), inp_str(A[i]) + f" at position {t} of the chain", "result_depends_on_history",
                              ref[i], st["obs"], {"part": "chain", "tier": tier, "upto": t})
                break
        if steps and F.diff(res["chain"]["fp0"], steps[-1]["fp"]):
            acc.note("closure_lost: module state changed by the chain")
    acc.sample({"part": "chain", "length": stats.get("chain_calls")})
    yield acc.result()
    # ---- generator interleavings
    ng = len(_gen_factories())
    gp = [(i, j) for i in range(ng) for j in range(i, ng)]
    acc = Acc(ID, "generators")
    tot = 0
    for res in pmap("run_generators", gp):
        if "harness_error" in res:
            yield res; return
        g = res["gen"]
        tot += g["interleavings"]
        acc.point(n=g["interleavings"]); acc.nontrivial += g["with_real_switching"]
        acc.ran("generators", g["interleavings"]); acc.check(g["interleavings"])
        for b in g["bad"]:
            acc.violation("generator:" + b["generator"], "pair=" + "+".join(b["pair"]), "schedule=" + "".join(map(str, b["schedule"])),
                          "yields_differ_when_interleaved", b["solo"], b["interleaved"], {"part": "generators", "pair": list(res["pair"])})
        acc.outcome((g["names"], g["solo_yields"]))
    stats["generator_interleavings"] = tot
    acc.sample({"part": "generators", "kinds": [nm for nm, _ in _gen_factories()]})
    yield acc.result()
    # ---- grid chains
    fams = grid_families(tier)
    acc = Acc(ID, "grid")
    refs = {f: {} for f in fams}
    jobs = []
    for f, calls in fams.items():
        step = 40 if f != "ilp" else 8
        jobs += [(tier, f, lo, min(lo + step, len(calls))) for lo in range(0, len(calls), step)]
    for res in pmap("run_grid_refs", jobs):
        if "harness_error" in res:
            yield res; return
        for i, o in res["refs"]:
            refs[res["family"]][i] = o
            acc.ran(fams[res["family"]][i]["algo"])
    jobs = [(tier, f, oname, refs[f]) for f in fams for oname in ("forward", "reverse", "size-major")]
    jobs.sort(key=lambda j: -len(fams[j[1]]))
    stats["grid"] = {f: len(c) for f, c in fams.items()}
    for res in pmap("run_grid_chain", jobs):
        if "harness_error" in res:
            yield res; return
        g = res["grid"]; f = res["family"]; calls = fams[f]
        acc.point(nontrivial=True, n=g["executed"]); acc.ran("grid:" + f, g["executed"]); acc.check(g["executed"])
        acc.outcome((f, res["order"], g["executed"]))
        b = g["bad"]
        if b is not None:
            c = calls[b["index"]]
            hist = b.get("pair") or None
            where = (f"after {_label(calls[hist[0]])}" if hist else f"at position {b['pos']} of the {res['order']} chain of family {f}")
            acc.violation(c["algo"], cfg_str(c), inp_str(c) + " " + where, "result_depends_on_history", b["expected"], b["observed"],
                          {"part": "grid", "tier": tier, "family": f, "order": res["order"], "pos": b["pos"], "pair": hist})
    acc.sample({"part": "grid", "families": stats["grid"], "orders": ["forward", "reverse", "size-major"]})
    yield acc.result()
    # ---- aged process
    acc = Acc(ID, "aged-process")
    AC = aged_calls()
    for res in pmap("run_aged", list(range(len(AC)))):
        if "harness_error" in res:
            yield res; return
        c = dict(AC[res["index"]], out="PartitionAndSumsTuple")
        fresh, aged, nolimit = res["aged"]
        acc.point(nontrivial=True); acc.ran(c["algo"], 3); acc.check()
        if aged != fresh or aged != nolimit:
            acc.violation(c["algo"], cfg_str(c), inp_str(c), "result_depends_on_age_of_the_process",
                          {"fresh": fresh, "no time limit": nolimit}, {"clocks advanced by 1e6 s": aged}, {"part": "aged", "index": res["index"]})
        acc.outcome(("aged", res["index"], fresh[0]))
    acc.sample({"part": "aged-process", "calls": [_label(c) for c in AC], "clock shift": "1e6 s in every prtpy module that refers to the time module"})
    yield acc.result()
    # ---- sweep
    q = tier == "quick"
    sw = []
    for ch in scopes.chunk_multisets(range(0, 5), 1, 4 if q else 5, 8):
        sw.append(("partition", ch, (1, 2, 3)))
    for ch in spaces.chunked(spaces.sequences(range(0, 7), 1, 4 if q else 5), 200):
        sw.append(("packing", ch, 6))
    for ch in scopes.chunk_multisets(range(1, 10), 1, 5 if q else 6, 200):
        sw.append(("covering", ch, 6))
    for res in pmap("sweep", sw):
        yield res
    EXPLORER_STATS = stats


def replay(case, acc):
    part = case.get("part")
    if part == "sweep":
        c = {k: v for k, v in case.items() if k != "part"}
        items, valueof, d = repo.present(c["items"], c.get("fmt", "list"))
        before = _snapshot_arg(items)
        r1 = _raw_call(c, items, valueof); p1 = repo._plain(copy.deepcopy(r1))
        r2 = _raw_call(c, items, valueof)
        if before != _snapshot_arg(items):
            acc.violation(c["algo"], cfg_str(c), inp_str(c), "argument_modified", before, _snapshot_arg(items), case)
        if p1 != repo._plain(r2):
            acc.violation(c["algo"], cfg_str(c), inp_str(c), "second_identical_call_differs", p1, repo._plain(r2), case)
        if repo._plain(r1) != p1:
            acc.violation(c["algo"], cfg_str(c), inp_str(c), "earlier_result_changed_by_later_call", p1, repo._plain(r1), case)
    elif part == "history":
        A = alphabet(case["tier"])
        idx = case["history"]
        h = _in_child(_execute_history, [A[i] for i in idx])
        last = idx[-1]
        refh = _in_child(_execute_history, [A[last]])
        if h["steps"][-1]["obs"] != refh["steps"][0]["obs"]:
            acc.violation(A[last]["algo"], cfg_str(A[last]), inp_str(A[last]), "result_depends_on_previous_call", refh["steps"][0]["obs"], h["steps"][-1]["obs"], case)
    elif part == "chain":
        A = alphabet(case["tier"])
        circuit = _eulerian(len(A))[:case["upto"] + 1]
        h = _in_child(_execute_history, [A[i] for i in circuit])
        last = circuit[-1]
        refh = _in_child(_execute_history, [A[last]])
        if h["steps"][-1]["obs"] != refh["steps"][0]["obs"]:
            acc.violation(A[last]["algo"], cfg_str(A[last]), inp_str(A[last]), "result_depends_on_history", refh["steps"][0]["obs"], h["steps"][-1]["obs"], case)
    elif part == "env":
        A = alphabet(case["tier"])
        h = _in_child(_execute_history, [A[i] for i in case["history"]])
        d = F.diff(h["fp0"], h["steps"][-1]["fp"])
        for lab in F.ENV_THAT_CHANGES_RESULTS:
            if lab in d:
                c = A[case["history"][-1]]
                acc.violation(c["algo"], cfg_str(c), inp_str(c), "numeric_environment_left_changed_by_call", d[lab][0], d[lab][1], case)
    elif part == "aged":
        c = dict(aged_calls()[case["index"]], out="PartitionAndSumsTuple")
        fresh, aged, nolimit = _in_child(_aged_child, aged_calls()[case["index"]])
        if aged != fresh or aged != nolimit:
            acc.violation(c["algo"], cfg_str(c), inp_str(c), "result_depends_on_age_of_the_process", {"fresh": fresh, "no time limit": nolimit}, aged, case)
    elif part == "grid":
        calls = grid_families(case["tier"])[case["family"]]
        if case.get("pair"):
            idx = case["pair"]
        else:
            idx = grid_orders(len(calls), calls)[case["order"]][:case["pos"] + 1]
        last = calls[idx[-1]]
        got = _in_child(_seq_last, [calls[i] for i in idx])
        want = _in_child(_obs_of, last)
        if got != want:
            acc.violation(last["algo"], cfg_str(last), inp_str(last), "result_depends_on_history", want, got, case)
    elif part == "generators":
        g = _in_child(_run_generators_child, *case["pair"])
        for b in g["bad"]:
            acc.violation("generator:" + b["generator"], "pair", "schedule=" + "".join(map(str, b["schedule"])), "yields_differ_when_interleaved", b["solo"], b["interleaved"], case)


def repro(v):
    c = v.get("case") or {}
    return f"# replay with ./check C15 --replay <this file>   part={c.get('part')} history={c.get('history')}"
