#!/bin/bash
# tools/run_mutant.sh <patch-file> [--suite] <ID> [<ID> ...]
# Copies /repo to a scratch directory under /var/tmp, applies the patch, optionally runs the repository's own suite
# there, runs the listed checks (quick tier) against the copy, prints one line per check, removes the copy.
set -u
PATCH=$(readlink -f "$1"); shift
SUITE=0; if [ "${1:-}" = "--suite" ]; then SUITE=1; shift; fi
VERIF=$(dirname "$(dirname "$(readlink -f "$0")")")
D=$(mktemp -d /var/tmp/mut-XXXXXX)
trap 'rm -rf "$D"' EXIT
rsync -a --exclude .git --exclude '__pycache__' /repo/ "$D/repo/"
( cd "$D/repo" && patch -s -p1 < "$PATCH" ) || { echo "PATCH-FAILED $PATCH"; exit 3; }
if [ $SUITE = 1 ]; then
  ( cd "$D/repo" && PYTHONPATH="$D/repo" timeout 1500 /venv/bin/python -m pytest -q -p no:cacheprovider --timeout=900 --continue-on-collection-errors --junitxml="$D/junit.xml" >/dev/null 2>&1
    /venv/bin/python - "$D/junit.xml" <<'PY'
import json, sys, xml.etree.ElementTree as ET
b = json.load(open('/root/.vp/BASELINE.json'))
passed = set()
for tc in ET.parse(sys.argv[1]).iter('testcase'):
    if not any(ch.tag in ('failure', 'error', 'skipped') for ch in tc):
        passed.add(tc.get('classname') + '::' + tc.get('name'))
miss = [x for x in b['stable_pass'] if x not in passed]
print("SUITE", "passes-baseline" if not miss else f"BREAKS {miss}")
PY
  )
fi
mkdir -p "$D/ev"
for id in "$@"; do
  out=$(cd "$VERIF" && VERIF_REPO="$D/repo" VERIF_EVIDENCE_DIR="$D/ev" timeout ${MUT_TIMEOUT:-900} ./check "$id" --tier ${MUT_TIER:-quick} 2>&1); rc=$?
  nv=$(echo "$out" | grep -c '^VIOLATION')
  first=$(echo "$out" | grep -A1 '^VIOLATION' | sed -n 2p | cut -c1-220)
  echo "$(basename "$PATCH") $id rc=$rc violations=$nv ${first}"
done
