#!/venv/bin/python
"""tools/gen_separating.py : enumerates COMPLETELY all multisets of n items over 1..V (for the (V, n, k) listed below) and keeps
those that separate the objectives: no difference-optimal partition is also largest-sum-optimal (flag L), none is also
smallest-sum-optimal (flag S), every difference-optimal partition has a larger maximum than the LPT partition (flag G).
A search rule or bound that is sound for one objective and is applied to another can only fail on such instances.
Writes mc/data/separating.json (a fixed finite list, generated once; deterministic)."""
import os, sys, json, multiprocessing as mp
VERIF = os.path.dirname(os.path.dirname(os.path.abspath(__file__)))
sys.path.insert(0, VERIF)
from mc import spaces, oracles as O

SPACES = [(24, 6, 3), (20, 7, 3), (16, 7, 4), (14, 8, 3)]


def states(items, k):
    st = {(0,) * k}
    for v in items:
        nx = set()
        for s in st:
            prev = None
            for b in range(k):
                if s[b] == prev: continue
                prev = s[b]; t = list(s); t[b] += v; t.sort(); nx.add(tuple(t))
        st = nx
    return st


def flags(arg):
    chunk, k = arg
    out = []
    for items in chunk:
        st = states(items, k)
        dmin = min(s[-1] - s[0] for s in st)
        D = [s for s in st if s[-1] - s[0] == dmin]
        lmin = min(s[-1] for s in st); smax = max(s[0] for s in st)
        lpt = max(O.lpt_sums(items, k))
        f = ("L" if all(s[-1] != lmin for s in D) else "") + ("S" if all(s[0] != smax for s in D) else "") + ("G" if all(s[-1] > lpt for s in D) else "")
        if f:
            out.append((list(items), k, f))
    return out


def main():
    res = []; counts = {}
    with mp.Pool(min(16, os.cpu_count())) as pool:
        for V, n, k in SPACES:
            chunks = [(ch, k) for ch in spaces.chunked(spaces.multisets(range(1, V + 1), n, n), 2000)]
            tot = sum(len(c[0]) for c in chunks)
            found = [x for part in pool.map(flags, chunks) for x in part]
            counts[f"V={V},n={n},k={k}"] = {"enumerated": tot, "separating": len(found)}
            res += found
            print(V, n, k, tot, len(found), flush=True)
    json.dump({"spaces": counts, "instances": res}, open(os.path.join(VERIF, "mc", "data", "separating.json"), "w"))


if __name__ == "__main__":
    main()
