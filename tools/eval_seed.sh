#!/bin/bash
# tools/eval_seed.sh <seed-dir> [<check-id> ...]
# <seed-dir> holds patch.diff, demo.py, notes.md (written by an independent sub-agent); its name is <PROPERTY>-<n>.
# Confirms, in scratch copies of /repo under /var/tmp:  demo passes on the clean tree, fails with the patch, the repository's
# own suite still passes its baseline with the patch; then runs the named checks (default: the property's own check, and if
# that one is silent every other check) against the patched copy.  Results go to /verif/seeded/<name>/meta.json.
set -u
SEED=$(readlink -f "$1"); shift
NAME=$(basename "$SEED"); PROP=${NAME%%-*}
VERIF=$(dirname "$(dirname "$(readlink -f "$0")")")
D=$(mktemp -d /var/tmp/seed-XXXXXX)
trap 'rm -rf "$D"' EXIT
rsync -a --exclude .git --exclude '__pycache__' /repo/ "$D/clean/"
rsync -a "$D/clean/" "$D/mut/"
( cd "$D/mut" && patch -s -p1 < "$SEED/patch.diff" ) || { echo "$NAME PATCH-FAILED"; exit 3; }
run_demo() { ( cd "$D" && PYTHONPATH="$1" PYTHONDONTWRITEBYTECODE=1 timeout 600 /venv/bin/python -W ignore "$SEED/demo.py" > "$D/demo.out" 2>&1; echo $? ); }
DC=$(run_demo "$D/clean"); DM=$(run_demo "$D/mut"); tail -3 "$D/demo.out" > "$D/demo_mut.txt"
( cd "$D/mut" && PYTHONPATH="$D/mut" PYTHONDONTWRITEBYTECODE=1 timeout 1500 /venv/bin/python -m pytest -q -p no:cacheprovider --timeout=900 --continue-on-collection-errors --junitxml="$D/junit.xml" >/dev/null 2>&1 )
SUITE=$(/venv/bin/python - "$D/junit.xml" <<'PY'
import json, sys, xml.etree.ElementTree as ET
b = json.load(open('/root/.vp/BASELINE.json'))
passed = set()
try:
    for tc in ET.parse(sys.argv[1]).iter('testcase'):
        if not any(ch.tag in ('failure', 'error', 'skipped') for ch in tc):
            passed.add(tc.get('classname') + '::' + tc.get('name'))
except Exception as e:
    print("suite-did-not-run"); sys.exit()
miss = [x for x in b['stable_pass'] if x not in passed]
print("passes-baseline" if not miss else "BREAKS:" + ",".join(miss))
PY
)
echo "$NAME demo_clean_rc=$DC demo_patched_rc=$DM suite=$SUITE"
mkdir -p "$D/ev"
run_check() {
  local id=$1
  local out rc
  out=$(cd "$VERIF" && VERIF_REPO="$D/mut" VERIF_EVIDENCE_DIR="$D/ev" timeout ${SEED_TIMEOUT:-1200} ./check "$id" --tier ${SEED_TIER:-quick} 2>&1); rc=$?
  local first
  first=$(echo "$out" | grep -A1 '^VIOLATION' | sed -n 2p | cut -c1-400)
  echo "$id|$rc|$(echo "$out" | grep -c '^VIOLATION')|$first" >> "$D/checks.txt"
  echo "  $id rc=$rc $first" | cut -c1-260
}
: > "$D/checks.txt"
if [ $# -gt 0 ]; then for id in "$@"; do run_check "$id"; done
else
  run_check "$PROP"
  if ! grep -q "^$PROP|1|" "$D/checks.txt"; then
    for i in $(seq -w 1 20); do [ "C$i" != "$PROP" ] && run_check "C$i"; done
  fi
fi
OUT="$VERIF/seeded/$NAME"; mkdir -p "$OUT"
cp "$SEED/patch.diff" "$SEED/demo.py" "$OUT/" 2>/dev/null; cp "$SEED/notes.md" "$OUT/" 2>/dev/null
/venv/bin/python - "$OUT" "$NAME" "$PROP" "$DC" "$DM" "$SUITE" "$D/checks.txt" "$D/demo_mut.txt" <<'PY'
import json, sys, os, subprocess
out, name, prop, dc, dm, suite, checks, demo = sys.argv[1:9]
rows = []
for l in open(checks):
    i, rc, nv, first = l.rstrip("\n").split("|", 3)
    rows.append({"check": i, "exit": int(rc), "violation_lines": int(nv), "first_violation": first})
notes = open(os.path.join(out, "notes.md")).read() if os.path.exists(os.path.join(out, "notes.md")) else ""
meta_path = os.path.join(out, "meta.json")
old = json.load(open(meta_path)) if os.path.exists(meta_path) else {}
hist = old.get("history", [])
if os.environ.get("SEED_NOTE"):
    hist = hist + [os.environ["SEED_NOTE"]]
meta = {
    "id": name, "breaks_property": prop,
    "origin": "written by an independent sub-agent that saw only the property text and a scratch worktree of /repo",
    "needs_to_manifest": old.get("needs_to_manifest", "see notes.md"),
    "confirmed": {"demo_on_clean_tree_exit": int(dc), "demo_with_patch_exit": int(dm), "repository_suite_with_patch": suite,
                  "demo_output_with_patch": open(demo).read().strip()[-400:]},
    "valid_seed": dc == "0" and dm == "1" and suite == "passes-baseline",
    "what_was_run": "tools/eval_seed.sh: scratch copies of /repo under /var/tmp (clean and patched); demo.py on both; the repository's pytest suite on the patched copy compared with /root/.vp/BASELINE.json; ./check <id> --tier quick with VERIF_REPO pointing at the patched copy",
    "verif_commit": subprocess.check_output(["git", "-C", os.path.dirname(os.path.dirname(out)), "log", "-1", "--format=%h"]).decode().strip(),
    "checks": rows,
    "caught_by": [r["check"] for r in rows if r["exit"] == 1 and r["violation_lines"] > 0],
    "history": hist,
}
json.dump(meta, open(meta_path, "w"), indent=1)
print(f"  -> {name}: valid_seed={meta['valid_seed']} caught_by={meta['caught_by']}")
PY
