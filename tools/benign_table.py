#!/usr/bin/env python3
"""tools/benign_table.py : writes benign/INDEX.md from benign/*/meta.json (behaviour-preserving changes; every check must stay silent)."""
import json, os, glob, re
ROOT = os.path.join(os.path.dirname(os.path.dirname(os.path.abspath(__file__))), "benign")
rows = []
for d in sorted(glob.glob(os.path.join(ROOT, "*-*"))):
    mp = os.path.join(d, "meta.json")
    if not os.path.exists(mp):
        continue
    m = json.load(open(mp))
    notes = open(os.path.join(d, "notes.md")).read() if os.path.exists(os.path.join(d, "notes.md")) else ""
    first = re.sub(r"[#*`|]", "", next((l for l in notes.splitlines() if len(l.strip()) > 30), ""))[:200]
    rows.append((m["id"], m.get("repository_suite_with_patch"), len(m.get("checks", [])), ", ".join(m.get("alarms", [])) or "none", first))
with open(os.path.join(ROOT, "INDEX.md"), "w") as f:
    f.write("# Behaviour-preserving changes (negative controls)\n\nWritten by independent sub-agents; each was applied to a scratch copy of /repo and ALL quick checks were run against it "
            "(tools/eval_benign.sh). An alarm here would be a false alarm.\n\n")
    f.write(f"{len(rows)} changes; with an alarm: {sum(1 for r in rows if r[3] != 'none')}.\n\n| id | repository suite | checks run | alarms | what |\n|---|---|---|---|---|\n")
    for r in rows:
        f.write("| " + " | ".join(str(x) for x in r) + " |\n")
print(len(rows), "rows")
