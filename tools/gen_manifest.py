#!/venv/bin/python
"""Regenerates /verif/MANIFEST.json from the table below (kept by hand) and validates it."""
import json, os, sys

VERIF = os.path.dirname(os.path.dirname(os.path.abspath(__file__)))
sys.path.insert(0, VERIF)

E1 = "bounded-exhaustive small-scope enumeration of (configuration x input) on the real code, judged by an independent brute-force oracle"
def e1(ref, what, oracle, note=None):
    return dict(engine="E1", cat="model_checking", ref=ref,
                technique="explicit-state bounded-exhaustive enumeration of (configuration x input) executed on the real code; " + oracle,
                text=what + " Every point of the stated finite space is executed and judged - a coverage statement within bounds, not a sample.",
                note=note or "Holds only within the enumerated bounds (evidence.coverage.bounds). Trusted base: the oracles in mc/oracles.py (cross-validated by ./check --selftest), mc/judge.py, mc/repo.py.")


CHECKS = {
    "C01": e1("DESIGN.md section 4 C01", "All multisets x bin counts x partitioners x complete-greedy switch/objective combinations x input formats are run and judged for item conservation, bin count and absence of a missing result.", "conservation oracle on item names"),
    "C02": e1("DESIGN.md section 4 C02", "Every exact algorithm, objective and complete-greedy switch combination is compared on every input of the scope with the optimum over ALL set partitions.", "exhaustive optimum (restricted-growth enumeration) as oracle; ILP disagreements re-solved with preprocessing off"),
    "C03": e1("DESIGN.md section 4 C03", "All arrival orders / multisets x bin sizes x packers x output types are run and judged for feasibility, conservation, no empty bin and consistent bin counts.", "feasibility/conservation oracle recomputed from the returned items"),
    "C04": e1("DESIGN.md section 4 C04", "Bin-completion is compared with the exhaustive optimum on every multiset of the scope, in two presentation orders and three output types.", "branch-and-bound optimum as oracle (cross-validated against subset DP)"),
    "C05": e1("DESIGN.md section 4 C05", "All multisets (items larger than the bin included) x bin sizes x covering algorithms x formats are judged for cover validity, single use of items and waste below one bin.", "validity oracle recomputed from the returned items"),
    "C06": e1("DESIGN.md section 4 C06", "Every point is executed with all ten output types; the nine cheaper outputs must equal what is derived from the full partition output.", "differential oracle between output types of the same call"),
    "C07": e1("DESIGN.md section 4 C07", "Every point is executed in seven input formats (list, numpy array, dict with string / integer names, names + value function with unique names, with one name per distinct value repeated, and as a numpy array of identifiers), names anti-correlated to the values; sums multisets must agree and the named result must be a valid partition/packing/cover of the names.", "differential oracle across formats + validity oracle on names"),
    "C08": e1("DESIGN.md section 4 C08", "The proven ratio and gap bounds of greedy, KK, multifit and round-robin are checked as exact integer inequalities against the exhaustive optimum, all planted instances and LPT's tight family.", "exhaustive optimum / optimum known by construction"),
    "C09": e1("DESIGN.md section 4 C09", "The any-fit inequality and the bin-count bounds are checked on every arrival order of the scope, every multiset for the decreasing variants and every planted perfect packing.", "invariant on the observed packing; exhaustive / planted optimum for the count bounds"),
    "C10": e1("DESIGN.md section 4 C10", "The approximation guarantees of the three covering heuristics are checked against the exhaustive cover optimum, every planted exact cover and the published worst-case families.", "exhaustive cover optimum (count-vector DP) / optimum known by construction"),
    "C11": dict(engine="E3", cat="fault_enumeration", ref="DESIGN.md section 2 E3, section 4 C11",
                technique="exhaustive enumeration of every interruption point (counting clock injected through the module seam) x every input/configuration of the scope, executed on the real code",
                text="For every (input, configuration) the complete set of clock readings at which the time-limit test can fire is enumerated (0..T) and every cut is executed; validity, monotonic improvement, LPT first solution and optimality of the full run are judged against exhaustive oracles; an interrupted call precedes an unlimited one and an unlimited one follows all cuts (both must be optimal). This is every behaviour under any monotone clock within the input bounds.",
                note="Assumes the algorithms consult the clock only through the module-global `time` (asserted per run) and a monotone clock. Trusted base: mc/clock.py, oracles."),
    "C12": e1("DESIGN.md section 4 C12", "CBLDM is compared with the exhaustive bounded two-way optimum on every multiset of the scope and every cardinality bound 1..n and the default.", "reachable (cardinality,sum) oracle, cross-validated against 2^n enumeration"),
    "C13": e1("DESIGN.md section 4 C13", "The three documented extension points are enumerated directly: lower bounds against the minimum over all compositions of the remaining total, the inclusion/exclusion tree against all 2^n subsets for every half-integer window, all_combinations against all k! pairings for both managers.", "exhaustive reference enumerations (compositions / subsets / permutations)"),
    "C14": e1("DESIGN.md section 4 C14", "Nine executable reference models transcribed from the documented rules are run in lock-step with the implementation on every input of the scope; sums multisets (and bins where the rule leaves no freedom) must agree.", "reference models in the implementation language, conformance checked on every enumerated input (traces_validated_against_impl)",
              note="The reference models (mc/models.py) are the trusted base; bounds in evidence.coverage.bounds."),
    "C15": dict(engine="E4", cat="model_checking", ref="DESIGN.md section 2 E4, section 4 C15",
                technique="call-history exploration on the real code: all ordered call pairs from a pristine forked interpreter, an Eulerian chain through all ordered pairs, grid chains (per family of algorithms sharing code, a dense grid of calls whose neighbours differ in one argument, run as one history in three visiting orders and compared call by call with freshly forked pristine processes), all interleavings of two live generators, an exhaustive argument-preservation sweep, and a module-state fingerprint closure reported as coverage",
                text="Every history of length <= 2 over the call alphabet is executed in a fresh process and compared with singleton references; the alphabet chain and the grid chains (about 31 000 calls, 93 000 chain steps in the quick tier) exercise long histories from non-initial states with colliding arguments (same items under other bin sizes / bin counts / objectives / switches / output types / formats, cut-off calls before unlimited ones, one shared names list + value table + value function mutated in place, one objective object re-used across calls); generator pairs are explored under all schedules; arguments and earlier results are deep-compared on a complete small scope. If every call maps the fingerprinted module state to itself the evidence also states the closure argument (history independence for histories of any length over the alphabet).",
                note="A change of the fingerprinted module state is an observation, not a violation (a cache with a complete key changes state and no result): decisions rest on compared results. The fingerprint covers module globals, function defaults/closures/attributes, lru caches, class attributes and reachable prtpy instances. CBC is warmed up once in the parent through mip, not through prtpy."),
    "C16": dict(engine="E2", cat="model_checking", ref="DESIGN.md section 2 E2, section 4 C16",
                technique="explicit-state breadth-first search over bins-manager operation histories with canonical-state de-duplication (contents + aliasing signature) and a reference model stepped in lock-step on real objects rebuilt by replay",
                text="All operation sequences up to the depth bound on a pool of live arrays are explored for both managers (and, at a smaller bound, with items built as short-lived records and with an item of magnitude 2**24+1); after every transition every observable of every live array is compared with the model, and arguments documented as unmodified are compared before/after the call.",
                note="Bounds: evidence.coverage.bounds (live arrays, bins, depth). Hand-over discipline is part of the transition relation. Trusted base: the list-of-lists model in mc/props/c16.py."),
    "C17": e1("DESIGN.md section 4 C17", "Copies, weights and additional constraints (every constant c, infeasible ones included) are enumerated one family at a time and in pairs and judged against an enumeration of all count matrices under the documented model; every solver status is injected through the module seam.", "exhaustive count-matrix oracle + fault injection of every mip.OptimizationStatus",
              note="Weighted optimality is judged against the documented model (ascending weighted sums, DESIGN C17). CBC inconsistencies are separated by re-solving with preprocessing off and counted in evidence.observations."),
    "C18": e1("DESIGN.md section 4 C18", "Metamorphic relations (all permutations, scale factors, added zeros) and pairwise agreement of the exact algorithms on completely enumerated families beyond oracle size are checked by differential comparison of real runs.", "metamorphic / differential oracle between related real executions; no time-outs"),
    "C19": e1("DESIGN.md section 4 C19", "Every request of the scope that must be refused (oversize item at every position x packer x format x output type; one invalid CBLDM argument at a time; numitems on the sums-only manager) is executed and must raise.", "exception-type oracle"),
    "C20": e1("DESIGN.md section 4 C20", "Every sum vector of the scope (short vectors densely, long vectors up to 65 entries over 2-3 letters, magnitudes up to 2**50) in three containers, every k-parameter and weight vector, with and without the sorted flag, is compared with the documented definitions re-implemented on plain lists; one container object is walked through all vectors by in-place mutation with the objective objects re-used, and every sequence of up to three calls on one objective object is followed by evaluations that must still equal the definition.", "definitions re-implemented independently as oracle"),
}

NOT_YET = "no check built"


def main():
    props = [json.loads(l)["id"] for l in open(os.path.join(VERIF, "properties.jsonl"))]
    checks = []
    for pid in props:
        c = CHECKS.get(pid)
        if not c:
            continue
        checks.append({
            "property_id": pid,
            "quick_cmd": f"./check {pid} --tier quick",
            "thorough_cmd": f"./check {pid} --tier thorough",
            "evidence_file": f"/verif/evidence/{pid}.json",
            "replay_cmd_template": f"./check {pid} --replay {{path}}",
            "engine": c["engine"],
            "level_claimed": {"category": c["cat"], "text": c["text"], "design_ref": c["ref"]},
            "level_note": c["note"],
            "technique": c["technique"],
        })
    na = [{"property_id": p, "reason": NOT_YET} for p in props if p not in CHECKS]
    engines = [
        {"name": "E1", "path": "mc/runner.py + mc/props/", "kind_free_text": E1,
         "serves_properties": [p for p in props if CHECKS.get(p, {}).get("engine") == "E1"]},
        {"name": "E2", "path": "mc/props/c16.py", "kind_free_text": "explicit-state BFS over bins-manager operation histories with canonical-state de-duplication and a lock-step reference model",
         "serves_properties": [p for p in props if CHECKS.get(p, {}).get("engine") == "E2"]},
        {"name": "E3", "path": "mc/props/c11.py + mc/clock.py", "kind_free_text": "exhaustive interruption-point enumeration with a deterministic counting clock injected through the module seam",
         "serves_properties": [p for p in props if CHECKS.get(p, {}).get("engine") == "E3"]},
        {"name": "E4", "path": "mc/props/c15.py + mc/fingerprint.py", "kind_free_text": "call-history exploration from a pristine forked interpreter, state-fingerprint closure, Eulerian chain, generator interleavings",
         "serves_properties": [p for p in props if CHECKS.get(p, {}).get("engine") == "E4"]},
    ]
    man = {
        "version": 1,
        "setup_cmd": "./check --selftest",
        "hooks": {
            "guard": "PRTPY_VERIF",
            "enable": "no source hooks exist: checks import /repo's working tree directly (python, editable install); the clock, solver and module-state seams are reached from outside by patching module globals at run time",
            "baseline_off_cmd": "cd /repo && /venv/bin/python -m pytest -ra -q -p no:cacheprovider --timeout=900 --continue-on-collection-errors",
            "source_commits": [],
            "add_only": True,
        },
        "engines": [e for e in engines if e["serves_properties"]],
        "checks": checks,
        "not_applicable": na,
        "notes": "All checks run under /venv/bin/python against /repo's working tree (VERIF_REPO overrides it for mutant runs only). known_findings.json lists genuine defects recorded rather than repaired; fix: commits in /repo are listed there as 'fixed:' lines.",
    }
    with open(os.path.join(VERIF, "MANIFEST.json"), "w") as f:
        json.dump(man, f, indent=1)
    try:
        import jsonschema
        jsonschema.validate(man, json.load(open("/root/.vp/MANIFEST.schema.json")))
        print("MANIFEST.json valid;", len(checks), "checks,", len(na), "not_applicable")
    except ImportError:
        print("MANIFEST.json written (jsonschema not importable here)")


if __name__ == "__main__":
    main()
