#!/venv/bin/python
"""Regenerates /verif/MANIFEST.json from the table below (kept by hand) and validates it."""
import json, os, sys

VERIF = os.path.dirname(os.path.dirname(os.path.abspath(__file__)))
sys.path.insert(0, VERIF)

E1 = "bounded-exhaustive small-scope enumeration of (configuration x input) on the real code, judged by an independent brute-force oracle"
def e1(ref, what, oracle, note=None):
    return dict(engine="E1", cat="model_checking", ref=ref,
                technique="explicit-state bounded-exhaustive enumeration of (configuration x input) executed on the real code; " + oracle,
                text=what + " Every point of the stated finite space is executed and judged - a coverage statement within bounds, not a sample.",
                note=note or "Holds only within the enumerated bounds (evidence.coverage.bounds). Trusted base: the oracles in mc/oracles.py (cross-validated by ./check --selftest), mc/judge.py, mc/repo.py.")


CHECKS = {
    "C01": e1("DESIGN.md section 4 C01", "All multisets x bin counts x partitioners x complete-greedy switch/objective combinations x input formats are run and judged for item conservation, bin count and absence of a missing result.", "conservation oracle on item names"),
    "C02": e1("DESIGN.md section 4 C02", "Every exact algorithm, objective and complete-greedy switch combination is compared on every input of the scope with the optimum over ALL set partitions.", "exhaustive optimum (restricted-growth enumeration) as oracle; ILP disagreements re-solved with preprocessing off"),
    "C03": e1("DESIGN.md section 4 C03", "All arrival orders / multisets x bin sizes x packers x output types are run and judged for feasibility, conservation, no empty bin and consistent bin counts.", "feasibility/conservation oracle recomputed from the returned items"),
    "C04": e1("DESIGN.md section 4 C04", "Bin-completion is compared with the exhaustive optimum on every multiset of the scope, in two presentation orders and three output types.", "branch-and-bound optimum as oracle (cross-validated against subset DP)"),
    "C05": e1("DESIGN.md section 4 C05", "All multisets (items larger than the bin included) x bin sizes x covering algorithms x formats are judged for cover validity, single use of items and waste below one bin.", "validity oracle recomputed from the returned items"),
    "C06": e1("DESIGN.md section 4 C06", "Every point is executed with all ten output types; the nine cheaper outputs must equal what is derived from the full partition output.", "differential oracle between output types of the same call"),
    "C07": e1("DESIGN.md section 4 C07", "Every point is executed in five input formats with names anti-correlated to the values; sums multisets must agree and the named result must be a valid partition/packing/cover of the names.", "differential oracle across formats + validity oracle on names"),
    "C08": e1("DESIGN.md section 4 C08", "The proven ratio and gap bounds of greedy, KK, multifit and round-robin are checked as exact integer inequalities against the exhaustive optimum, all planted instances and LPT's tight family.", "exhaustive optimum / optimum known by construction"),
    "C09": e1("DESIGN.md section 4 C09", "The any-fit inequality and the bin-count bounds are checked on every arrival order of the scope, every multiset for the decreasing variants and every planted perfect packing.", "invariant on the observed packing; exhaustive / planted optimum for the count bounds"),
    "C10": e1("DESIGN.md section 4 C10", "The approximation guarantees of the three covering heuristics are checked against the exhaustive cover optimum, every planted exact cover and the published worst-case families.", "exhaustive cover optimum (count-vector DP) / optimum known by construction"),
}

NOT_YET = "check not built yet in this round (planned: DESIGN.md section 4)"


def main():
    props = [json.loads(l)["id"] for l in open(os.path.join(VERIF, "properties.jsonl"))]
    checks = []
    for pid in props:
        c = CHECKS.get(pid)
        if not c:
            continue
        checks.append({
            "property_id": pid,
            "quick_cmd": f"./check {pid} --tier quick",
            "thorough_cmd": f"./check {pid} --tier thorough",
            "evidence_file": f"/verif/evidence/{pid}.json",
            "replay_cmd_template": f"./check {pid} --replay {{path}}",
            "engine": c["engine"],
            "level_claimed": {"category": c["cat"], "text": c["text"], "design_ref": c["ref"]},
            "level_note": c["note"],
            "technique": c["technique"],
        })
    na = [{"property_id": p, "reason": NOT_YET} for p in props if p not in CHECKS]
    engines = [
        {"name": "E1", "path": "mc/runner.py + mc/props/", "kind_free_text": E1,
         "serves_properties": [p for p in props if CHECKS.get(p, {}).get("engine") == "E1"]},
        {"name": "E2", "path": "mc/props/c16.py", "kind_free_text": "explicit-state BFS over bins-manager operation histories with canonical-state de-duplication and a lock-step reference model",
         "serves_properties": [p for p in props if CHECKS.get(p, {}).get("engine") == "E2"]},
        {"name": "E3", "path": "mc/props/c11.py + mc/clock.py", "kind_free_text": "exhaustive interruption-point enumeration with a deterministic counting clock injected through the module seam",
         "serves_properties": [p for p in props if CHECKS.get(p, {}).get("engine") == "E3"]},
        {"name": "E4", "path": "mc/props/c15.py + mc/fingerprint.py", "kind_free_text": "call-history exploration from a pristine forked interpreter, state-fingerprint closure, Eulerian chain, generator interleavings",
         "serves_properties": [p for p in props if CHECKS.get(p, {}).get("engine") == "E4"]},
    ]
    man = {
        "version": 1,
        "setup_cmd": "./check --selftest",
        "hooks": {
            "guard": "PRTPY_VERIF",
            "enable": "no source hooks exist: checks import /repo's working tree directly (python, editable install); the clock, solver and module-state seams are reached from outside by patching module globals at run time",
            "baseline_off_cmd": "cd /repo && /venv/bin/python -m pytest -ra -q -p no:cacheprovider --timeout=900 --continue-on-collection-errors",
            "source_commits": [],
            "add_only": True,
        },
        "engines": [e for e in engines if e["serves_properties"]],
        "checks": checks,
        "not_applicable": na,
        "notes": "All checks run under /venv/bin/python against /repo's working tree (VERIF_REPO overrides it for mutant runs only). known_findings.json lists genuine defects recorded rather than repaired; fix: commits in /repo are listed there as 'fixed:' lines.",
    }
    with open(os.path.join(VERIF, "MANIFEST.json"), "w") as f:
        json.dump(man, f, indent=1)
    try:
        import jsonschema
        jsonschema.validate(man, json.load(open("/root/.vp/MANIFEST.schema.json")))
        print("MANIFEST.json valid;", len(checks), "checks,", len(na), "not_applicable")
    except ImportError:
        print("MANIFEST.json written (jsonschema not importable here)")


if __name__ == "__main__":
    main()
