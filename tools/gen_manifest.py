#!/venv/bin/python
"""Regenerates /verif/MANIFEST.json from the table below (kept by hand) and validates it."""
import json, os, sys

VERIF = os.path.dirname(os.path.dirname(os.path.abspath(__file__)))
sys.path.insert(0, VERIF)

E1 = "bounded-exhaustive small-scope enumeration of (configuration x input) on the real code, judged by an independent brute-force oracle"
CHECKS = {
    "C01": dict(engine="E1", cat="model_checking", ref="DESIGN.md section 4 C01",
                technique="explicit-state bounded-exhaustive enumeration (all multisets x bin counts x algorithms x switch combinations), conservation oracle",
                text="Every (input, numbins, algorithm, configuration) point of the stated bounded space is executed on the real code and judged for item conservation, bin count and absence of a missing result; a coverage statement over a finite space, not a sample.",
                note="Holds only within the enumerated bounds (evidence.coverage.bounds); oracle is multiset comparison of names; trusted base: mc/judge.py, mc/repo.py."),
}

NOT_YET = "check not built yet in this round (planned: DESIGN.md section 4)"


def main():
    props = [json.loads(l)["id"] for l in open(os.path.join(VERIF, "properties.jsonl"))]
    checks = []
    for pid in props:
        c = CHECKS.get(pid)
        if not c:
            continue
        checks.append({
            "property_id": pid,
            "quick_cmd": f"./check {pid} --tier quick",
            "thorough_cmd": f"./check {pid} --tier thorough",
            "evidence_file": f"/verif/evidence/{pid}.json",
            "replay_cmd_template": f"./check {pid} --replay {{path}}",
            "engine": c["engine"],
            "level_claimed": {"category": c["cat"], "text": c["text"], "design_ref": c["ref"]},
            "level_note": c["note"],
            "technique": c["technique"],
        })
    na = [{"property_id": p, "reason": NOT_YET} for p in props if p not in CHECKS]
    engines = [
        {"name": "E1", "path": "mc/runner.py + mc/props/", "kind_free_text": E1,
         "serves_properties": [p for p in props if CHECKS.get(p, {}).get("engine") == "E1"]},
        {"name": "E2", "path": "mc/props/c16.py", "kind_free_text": "explicit-state BFS over bins-manager operation histories with canonical-state de-duplication and a lock-step reference model",
         "serves_properties": [p for p in props if CHECKS.get(p, {}).get("engine") == "E2"]},
        {"name": "E3", "path": "mc/props/c11.py + mc/clock.py", "kind_free_text": "exhaustive interruption-point enumeration with a deterministic counting clock injected through the module seam",
         "serves_properties": [p for p in props if CHECKS.get(p, {}).get("engine") == "E3"]},
        {"name": "E4", "path": "mc/props/c15.py + mc/fingerprint.py", "kind_free_text": "call-history exploration from a pristine forked interpreter, state-fingerprint closure, Eulerian chain, generator interleavings",
         "serves_properties": [p for p in props if CHECKS.get(p, {}).get("engine") == "E4"]},
    ]
    man = {
        "version": 1,
        "setup_cmd": "./check --selftest",
        "hooks": {
            "guard": "PRTPY_VERIF",
            "enable": "no source hooks exist: checks import /repo's working tree directly (python, editable install); the clock, solver and module-state seams are reached from outside by patching module globals at run time",
            "baseline_off_cmd": "cd /repo && /venv/bin/python -m pytest -ra -q -p no:cacheprovider --timeout=900 --continue-on-collection-errors",
            "source_commits": [],
            "add_only": True,
        },
        "engines": [e for e in engines if e["serves_properties"]],
        "checks": checks,
        "not_applicable": na,
        "notes": "All checks run under /venv/bin/python against /repo's working tree (VERIF_REPO overrides it for mutant runs only). known_findings.json lists genuine defects recorded rather than repaired; fix: commits in /repo are listed there as 'fixed:' lines.",
    }
    with open(os.path.join(VERIF, "MANIFEST.json"), "w") as f:
        json.dump(man, f, indent=1)
    try:
        import jsonschema
        jsonschema.validate(man, json.load(open("/root/.vp/MANIFEST.schema.json")))
        print("MANIFEST.json valid;", len(checks), "checks,", len(na), "not_applicable")
    except ImportError:
        print("MANIFEST.json written (jsonschema not importable here)")


if __name__ == "__main__":
    main()
