#!/bin/bash
# tools/eval_benign.sh <dir with patch.diff, notes.md> : behaviour-preserving change -> every check must stay silent.
# Applies the patch to a scratch copy of /repo, runs the repository's suite and ALL quick checks against it,
# stores the outcome in /verif/benign/<name>/ (patch, notes, meta.json).
set -u
SRC=$(readlink -f "$1"); NAME=$(basename "$SRC")
VERIF=$(dirname "$(dirname "$(readlink -f "$0")")")
D=$(mktemp -d /var/tmp/ben-XXXXXX); trap 'rm -rf "$D"' EXIT
rsync -a --exclude .git --exclude '__pycache__' /repo/ "$D/mut/"
( cd "$D/mut" && patch -s -p1 < "$SRC/patch.diff" ) || { echo "$NAME PATCH-FAILED"; exit 3; }
( cd "$D/mut" && PYTHONPATH="$D/mut" PYTHONDONTWRITEBYTECODE=1 timeout 1500 /venv/bin/python -m pytest -q -p no:cacheprovider --timeout=900 --continue-on-collection-errors --junitxml="$D/junit.xml" >/dev/null 2>&1 )
SUITE=$(/venv/bin/python - "$D/junit.xml" <<'PY'
import json, sys, xml.etree.ElementTree as ET
b = json.load(open('/root/.vp/BASELINE.json'))
passed = set()
try:
    for tc in ET.parse(sys.argv[1]).iter('testcase'):
        if not any(ch.tag in ('failure', 'error', 'skipped') for ch in tc):
            passed.add(tc.get('classname') + '::' + tc.get('name'))
except Exception:
    print("suite-did-not-run"); sys.exit()
miss = [x for x in b['stable_pass'] if x not in passed]
print("passes-baseline" if not miss else "BREAKS:" + ",".join(miss))
PY
)
mkdir -p "$D/ev"; : > "$D/checks.txt"
for i in ${BENIGN_CHECKS:-$(seq -w 1 20)}; do
  id=C${i#C}
  out=$(cd "$VERIF" && VERIF_REPO="$D/mut" VERIF_EVIDENCE_DIR="$D/ev" timeout 1800 ./check "$id" --tier quick 2>&1); rc=$?
  first=$(echo "$out" | grep -A1 '^VIOLATION' | sed -n 2p | cut -c1-400)
  echo "$id|$rc|$(echo "$out" | grep -c '^VIOLATION')|$first" >> "$D/checks.txt"
  [ $rc != 0 ] && echo "  $NAME $id rc=$rc $first" | cut -c1-300
done
OUT="$VERIF/benign/$NAME"; mkdir -p "$OUT"; cp "$SRC/patch.diff" "$SRC/notes.md" "$OUT/" 2>/dev/null
/venv/bin/python - "$OUT" "$NAME" "$SUITE" "$D/checks.txt" <<'PY'
import json, sys, os, subprocess
out, name, suite, checks = sys.argv[1:5]
rows = []
for l in open(checks):
    i, rc, nv, first = l.rstrip("\n").split("|", 3)
    rows.append({"check": i, "exit": int(rc), "violation_lines": int(nv), "first_violation": first})
meta = {"id": name, "kind": "behaviour-preserving change written by an independent sub-agent (refactoring / performance work); every check must stay silent",
        "repository_suite_with_patch": suite, "checks": rows, "alarms": [r["check"] for r in rows if r["exit"] != 0],
        "verif_commit": subprocess.check_output(["git", "-C", os.path.dirname(os.path.dirname(out)), "log", "-1", "--format=%h"]).decode().strip()}
json.dump(meta, open(os.path.join(out, "meta.json"), "w"), indent=1)
print(f"  -> {name}: suite={suite} alarms={meta['alarms']}")
PY
