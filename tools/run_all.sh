#!/bin/bash
# tools/run_all.sh [quick|thorough] : runs every check, prints one summary line per check; validates evidence
cd "$(dirname "$(dirname "$(readlink -f "$0")")")"
TIER=${1:-quick}
for i in $(seq -w 1 20); do
  id=C$i
  s=$(date +%s)
  out=$(timeout ${ALL_TIMEOUT:-14400} ./check $id --tier $TIER 2>&1); rc=$?
  e=$(date +%s)
  v=$(echo "$out" | grep -c '^VIOLATION')
  kf=$(echo "$out" | grep -c '^KNOWN-FINDING')
  ev=$(python3-vt -c "
import json, jsonschema
try:
    jsonschema.validate(json.load(open('evidence/$id.json')), json.load(open('/root/.vp/EVIDENCE.schema.json'))); print('evidence-ok')
except Exception as ex: print('EVIDENCE-BAD', str(ex)[:80])")
  echo "$id rc=$rc wall=$((e-s))s violations=$v known=$kf $ev | $(echo "$out" | tail -1 | cut -c1-160)"
done
