#!/bin/bash
# tools/eval_batch.sh <note> <seed-name> ...   : own-property evaluation of several seeds under /tmp/seeds (or $SEED_ROOT)
NOTE="$1"; shift
for s in "$@"; do
  SEED_NOTE="$NOTE" "$(dirname "$0")/eval_seed.sh" "${SEED_ROOT:-/tmp/seeds}/$s" "${s%%-*}" 2>&1 | grep -v conda | grep -- "->\|PATCH-FAILED"
done
