#!/venv/bin/python
"""tools/mutation_sweep.py [--files f1,f2] [--per-file N] [--deadline-min M] [--workers W] [--out DIR]

Systematic operator mutation of the library source, as a complement to the hand-written seeded changes: every mutant is
a one-token change (comparison boundary, +-1 offset, and/or, dropped `not`) written by a program, not chosen by someone
who knows what the checks look for.  For each mutant the file is rewritten in a scratch copy of /repo under /var/tmp, and
the checks mapped to the file run against the copy (quick tier, VERIF_STOP_FIRST=1, cheapest first) until one reports a
violation.  Outcome per mutant: caught-by <ID> / incomplete (a check ran out of budget: never a silent pass) / survived.
Survivors are either equivalent mutants or holes; they are triaged by hand (mutation/TRIAGE.md).
Nothing is written to /repo.  Results: <out>/results.jsonl (one line per mutant, appended as they finish).
"""
import ast, copy, json, os, shutil, subprocess, sys, tempfile, time, argparse

VERIF = os.path.dirname(os.path.dirname(os.path.realpath(__file__)))
REPO = "/repo"

# file -> checks, cheapest first (quick-tier costs in DESIGN §9.1)
MAP = {
    "prtpy/partitioning/greedy.py": ["C14", "C08", "C07"],
    "prtpy/partitioning/roundrobin.py": ["C14", "C07"],
    "prtpy/partitioning/multifit.py": ["C08", "C14", "C18"],
    "prtpy/partitioning/karmarkar_karp_sy.py": ["C14", "C08"],
    "prtpy/partitioning/complete_greedy.py": ["C11", "C13", "C02"],
    "prtpy/partitioning/complete_karmarkar_karp_sy.py": ["C11", "C02"],
    "prtpy/partitioning/sequential_number_partitioning_sy.py": ["C13", "C02"],
    "prtpy/partitioning/recursive_number_partitioning_sy.py": ["C02"],
    "prtpy/partitioning/dynamic_programming.py": ["C02"],
    "prtpy/partitioning/integer_programming.py": ["C17", "C02"],
    "prtpy/partitioning/cbldm.py": ["C12", "C11", "C19"],
    "prtpy/partitioning/adaptors.py": ["C19", "C07", "C06"],
    "prtpy/packing/first_fit.py": ["C09", "C14", "C03"],
    "prtpy/packing/best_fit.py": ["C09", "C14", "C03"],
    "prtpy/packing/bin_completion.py": ["C04", "C03"],
    "prtpy/packing/bin_completion_utils.py": ["C04", "C03"],
    "prtpy/packing/cflz_covering.py": ["C10", "C05", "C14"],
    "prtpy/packing/greedy_covering.py": ["C10", "C05", "C14"],
    "prtpy/packing/adaptors.py": ["C19", "C07", "C06", "C03"],
    "prtpy/binners.py": ["C16", "C13", "C14"],
    "prtpy/objectives.py": ["C20", "C13", "C02"],
    "prtpy/outputtypes.py": ["C06", "C07"],
    "prtpy/inclusion_exclusion_tree.py": ["C13", "C02"],
}

CMP = {ast.Lt: ast.LtE, ast.LtE: ast.Lt, ast.Gt: ast.GtE, ast.GtE: ast.Gt, ast.Eq: ast.NotEq, ast.NotEq: ast.Eq}


def sites(tree):
    """(path-independent) list of (node-index, kind) over ast.walk order, skipping `if __name__ == '__main__'` blocks,
    docstrings (doctests are untouched: they are string constants) and type annotations"""
    skip = set()
    for node in ast.walk(tree):
        if isinstance(node, ast.If) and isinstance(node.test, ast.Compare) and isinstance(node.test.left, ast.Name) \
                and node.test.left.id == "__name__":
            for sub in ast.walk(node):
                skip.add(id(sub))
        if isinstance(node, (ast.FunctionDef,)):
            for a in node.args.args + node.args.kwonlyargs:
                if a.annotation is not None:
                    for sub in ast.walk(a.annotation):
                        skip.add(id(sub))
        if isinstance(node, ast.Assert):
            for sub in ast.walk(node):
                skip.add(id(sub))
    out = []
    for i, node in enumerate(ast.walk(tree)):
        if id(node) in skip:
            continue
        if isinstance(node, ast.Compare) and len(node.ops) == 1 and type(node.ops[0]) in CMP:
            out.append((i, "cmp"))
        elif isinstance(node, ast.BinOp) and isinstance(node.op, (ast.Add, ast.Sub)) and isinstance(node.right, ast.Constant) \
                and node.right.value == 1 and type(node.right.value) is int:
            out.append((i, "pm1"))       # x+1 -> x ; x-1 -> x
        elif isinstance(node, ast.BoolOp):
            out.append((i, "bool"))
        elif isinstance(node, ast.UnaryOp) and isinstance(node.op, ast.Not):
            out.append((i, "not"))
        elif isinstance(node, ast.BinOp) and isinstance(node.op, (ast.Add, ast.Sub)) and not (isinstance(node.right, ast.Constant)):
            out.append((i, "addsub"))    # a+b <-> a-b
    return out


def mutate(src, index, kind):
    tree = ast.parse(src)
    for i, node in enumerate(ast.walk(tree)):
        if i != index:
            continue
        line = getattr(node, "lineno", 0)
        before = ast.unparse(node)
        if kind == "cmp":
            node.ops = [CMP[type(node.ops[0])]()]
        elif kind == "pm1":
            node.right = ast.Constant(0)
        elif kind == "bool":
            node.op = ast.Or() if isinstance(node.op, ast.And) else ast.And()
        elif kind == "not":
            new = ast.Call(func=ast.Name(id="bool", ctx=ast.Load()), args=[node.operand], keywords=[])
            for parent in ast.walk(tree):
                for f, v in ast.iter_fields(parent):
                    if v is node:
                        setattr(parent, f, new)
                    elif isinstance(v, list) and node in v:
                        v[v.index(node)] = new
            ast.fix_missing_locations(tree)
            return ast.unparse(tree), line, before, ast.unparse(new)
        elif kind == "addsub":
            node.op = ast.Sub() if isinstance(node.op, ast.Add) else ast.Add()
        ast.fix_missing_locations(tree)
        return ast.unparse(tree), line, before, ast.unparse(node)
    raise IndexError(index)


def run_checks(copy_dir, checks, workers, per_check_timeout):
    env = dict(os.environ, VERIF_REPO=copy_dir, VERIF_EVIDENCE_DIR=os.path.join(copy_dir, ".ev"), VERIF_STOP_FIRST="1",
               VERIF_TASK_LIMIT=str(per_check_timeout // 2))
    log = []
    for c in checks:
        t0 = time.time()
        try:
            p = subprocess.run([os.path.join(VERIF, "check"), c, "--tier", "quick", "--workers", str(workers)], env=env,
                               capture_output=True, text=True, timeout=per_check_timeout)
            rc, out = p.returncode, p.stdout
        except subprocess.TimeoutExpired as e:
            rc, out = 124, (e.stdout or b"").decode() if isinstance(e.stdout, bytes) else (e.stdout or "")
        first = ""
        lines = out.splitlines()
        for j, l in enumerate(lines):
            if l.startswith("VIOLATION") and j + 1 < len(lines):
                first = lines[j + 1].strip()[:240]; break
        log.append({"check": c, "rc": rc, "s": round(time.time() - t0, 1), "first": first,
                    "tail": "" if rc in (0, 1) else (out[-300:] + (p.stderr[-300:] if rc != 124 else ""))})
        if rc == 1 and "VIOLATION" in out:
            return "caught", c, log
        if rc != 0:
            return "incomplete", c, log
    return "survived", None, log


def main():
    ap = argparse.ArgumentParser()
    ap.add_argument("--files", default="")
    ap.add_argument("--per-file", type=int, default=8)
    ap.add_argument("--deadline-min", type=float, default=60)
    ap.add_argument("--workers", type=int, default=8)
    ap.add_argument("--timeout", type=int, default=420)
    ap.add_argument("--offset", type=int, default=0, help="rotate the stride sample (another sample of the same sites)")
    ap.add_argument("--out", default=os.path.join(VERIF, "mutation"))
    a = ap.parse_args()
    files = [f for f in a.files.split(",") if f] or list(MAP)
    os.makedirs(a.out, exist_ok=True)
    resf = os.path.join(a.out, "results.jsonl")
    done = set()
    if os.path.exists(resf):
        for l in open(resf):
            d = json.loads(l); done.add((d["file"], d["index"], d["kind"]))
    scratch = tempfile.mkdtemp(prefix="msw-", dir="/var/tmp")
    copy_dir = os.path.join(scratch, "repo")
    deadline = time.time() + a.deadline_min * 60
    try:
        subprocess.run(["rsync", "-a", "--exclude", ".git", "--exclude", "__pycache__", REPO + "/", copy_dir + "/"], check=True)
        plan = []
        for f in files:
            src = open(os.path.join(REPO, f)).read()
            ss = sites(ast.parse(src))
            n = len(ss)
            if not n:
                continue
            k = min(a.per_file, n)
            pick = sorted({(a.offset + (j * n) // k) % n for j in range(k)})
            plan.append((f, src, [ss[j] for j in pick], n))
        # round-robin over files so that a deadline cuts evenly
        depth = max(len(p[2]) for p in plan)
        for r in range(depth):
            for f, src, picks, n in plan:
                if r >= len(picks) or time.time() > deadline:
                    continue
                idx, kind = picks[r]
                if (f, idx, kind) in done:
                    continue
                try:
                    msrc, line, before, after = mutate(src, idx, kind)
                    compile(msrc, f, "exec")
                except Exception as e:
                    continue
                path = os.path.join(copy_dir, f)
                open(path, "w").write(msrc)
                t0 = time.time()
                verdict, by, log = run_checks(copy_dir, MAP[f], a.workers, a.timeout)
                open(path, "w").write(src)
                rec = {"file": f, "index": idx, "kind": kind, "line": line, "before": before, "after": after, "sites_in_file": n,
                       "verdict": verdict, "by": by, "s": round(time.time() - t0, 1), "log": log}
                with open(resf, "a") as g:
                    g.write(json.dumps(rec) + "\n")
                print(f"{f}:{line} [{kind}] {before}  ->  {after} : {verdict} {by or ''} ({rec['s']}s)", flush=True)
    finally:
        shutil.rmtree(scratch, ignore_errors=True)


if __name__ == "__main__":
    main()
